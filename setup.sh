#!/bin/sh
# setup.sh - run once after a fresh restore, offline: checks the tool chain, validates the snprintf
# model against libc (natively and under CBMC) and runs a 10-second smoke job. Builds nothing that
# the checks keep: every check rebuilds its harnesses from /repo's working tree in a scratch dir.
set -e
cd "$(dirname "$0")"
for t in cbmc gcc python3 kissat; do
  command -v $t >/dev/null 2>&1 || { echo "setup: missing tool $t"; exit 1; }
done
cbmc --version | head -1
d=$(mktemp -d /tmp/catverif_setup.XXXXXX)
trap 'rm -rf "$d"' EXIT
gcc -w -O1 -I harness harness/k_snprintf.c -o "$d/ksn"
"$d/ksn" --sample 1 1 | grep -q "checkfail=0" || { echo "setup: libc disagrees with the snprintf validation table"; exit 1; }
cbmc -I harness -DNO_WITNESS harness/k_snprintf.c --no-standard-checks --unwinding-assertions --unwind 66 --drop-unused-functions --slice-formula > "$d/ksn.log" 2>&1 \
  || { echo "setup: snprintf model disagrees with the validation table"; tail -5 "$d/ksn.log"; exit 1; }
python3 -c "import sys; sys.path.insert(0,'lib'); import vlib, jobs; print('setup: job tables ok:', sum(len(jobs.jobs_for(p,'quick')) for p in jobs.REGISTRY), 'quick jobs')"
mkdir -p evidence replays
echo "setup: ok"
