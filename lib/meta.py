"""
meta.py - per-property description of what the check decides, its bounds, what lies outside, and the trusted base.
Imported by jobs.py (overrides the stubs there); used for MANIFEST.json and for every evidence file.
"""

E1 = "E1 kernel harness (CBMC on the real static functions of cat.c, symbolic data, independent reference model)"
E2 = "E2 step induction (CBMC: one API call from any object state satisfying the representation invariant RI, arbitrary environment, one job per (command state, event state[, variable, handler code]))"
E3 = "E3 guided run (CBMC: N calls of cat_service through the public API on class-shaped symbolic input and a symbolic command table; per-step control hints from native traces whose completeness is a proof obligation)"

RI_NOTE = ("RI (harness/s_step.c, ri_cmd/ri_evt) is the hand-written representation invariant: ring indices consistent, hold flag <=> HOLD state, "
           "per-state pointer/index/position facts and NUL-termination of the buffers; it holds after cat_init and is re-proved after every call (C03 jobs), "
           "so one-call obligations hold along call histories of any length within the descriptor family")
FAMILY = ("descriptor family of the step jobs: 2 groups, commands +A (no variable), +B (five variables, one per type, data_size 1..4 numeric / 1..8 buffers, "
          "symbolic access, callbacks, names, description), +CD (one uint8, may be implicit-write); symbolic flags and handler subsets; shared working buffer with a "
          "command half of 6..8 bytes (quick) / 6..12 (thorough) or separate event buffer; event-queue capacity per job")
E3_WORLD = ("E3 world: M=3 commands (2 groups where stated) with symbolic names over the legal alphabet (length 1..2, both cases), symbolic disable/only_test/"
            "implicit_write/need_all flags, group disable, handler subsets, variable access and callbacks; working buffer 12..24 bytes shared (command half 6..12)")

META2 = {
    "C01": dict(
        engine=E3,
        explanation="r_line.c: one or two input lines whose bytes are symbolic within per-position classes (A, T, name character, ?, =, CR, LF, garbage, argument byte, any), "
                    "symbolic command table; black-box monitor on the io callbacks: an input byte may be delivered only while no result code is owed, output units appear only for "
                    "the one outstanding line, every non-blank line gets exactly one OK/ERROR unit, blank lines none, the stream is newline-framed, and the parser is quiescent "
                    "within a linear step bound. The solver decides all byte values of the shape, all table contents and capacities at once.",
        bounds={"quick": "29 shapes: blank/prefix-only lines, run/read/write/test forms with names of 1..3 characters and 0..3 argument bytes, garbage at every parser stage, two-line inputs, "
                         "over-long arguments (5..7 bytes against a 6-byte command buffer); " + E3_WORLD + "; N = shape-specific linear bound (39..90 calls)",
                "thorough": "49 shapes: additionally free bytes (***), CR in every position, longer names/arguments, a second line after every kind of first line"},
        outside="lines longer than the shapes (beyond 8 name/argument bytes), tables of more than 3 commands, handlers that never return a terminal code, buffers larger than 24 bytes",
        assumptions=["handlers return terminal codes only (ERROR / DATA_OK / OK) - the property's premise", "io->read delivers bytes as soon as asked, io->write always accepts (schedules: C12)"],
        level_text="bounded model checking of the real parser through its public API: for every shape the solver either proves the monitor for all byte values / tables / capacities of the shape, "
                   "or returns a concrete scenario that is replayed natively; line lengths and table size are bounded, so this is not a proof"),
    "C02": dict(
        engine=E3,
        explanation="r_resolve.c: one line AT<name><suffix><args>LF, typed name over the whole legal alphabet in either case, table of 3 commands in 2 groups with symbolic names (prefixes of one "
                    "another, duplicates, any order are all inside), flags, handler subsets. The harness computes the reference resolution (first enabled exact match, else unique enabled "
                    "abbreviation, implicit-write cut-off, request type from the suffix incl. the '=?' rule) and compares it with the log of handler invocations and, on the output side, with the kind of answer "
                    "(a write / run request is answered by a result code alone; two jobs give the command half 16 bytes so that a READ / TEST answer of a command with a variable fits).",
        bounds={"quick": "11 shapes (+2 with a 14..16-byte command half): names of 1..3 typed characters against names of 1..2 characters, all four suffixes, 0..2 argument bytes; " + E3_WORLD +
                         "; plus kernel job k_lanes.c: the 2-bit match table for a table of 200 commands in 2 groups (symbolic indices i != j: read-after-write, no interference, disabled => NOT_MATCH, "
                         "prepare_parse_command, to_upper / legal alphabet over all 256 characters)",
                "thorough": "same shapes; k_lanes with 600 commands"},
        outside="line-level runs on tables of more than 3 commands (the match-table arithmetic for big tables is checked at kernel level only), names longer than 2 characters",
        assumptions=["handlers return terminal codes"],
        level_text="bounded model checking through the public API with a symbolic command table; table size and name length are small, stated bounds"),
    "C03": dict(
        engine=E2 + " + " + E1,
        explanation="s_step.c: from every object state satisfying RI (command state and event state fixed per job), one cat_service call with an arbitrary environment (read delivers any byte or "
                    "nothing, write returns any int, handlers return any int and may rewrite their buffer, variable callbacks return any int). Obligations: every CBMC built-in check inside cat.c "
                    "(array bounds, pointer validity incl. function pointers, pointer overflow, signed overflow, shifts, division), RI re-established, bytes behind every variable's data_size "
                    "unchanged, the event buffer untouched unless the event FSM is formatting and the command buffer untouched by states that do not own it. k_lanes.c with the built-in "
                    "checks on: the 2-bit match table of a 200-command table kept in a working buffer of the smallest size cat_init accepts, canary bytes behind it (set_cmd_state, get_cmd_state, prepare_parse_command).",
        bounds={"quick": "102 step jobs: every command state with the event FSM idle, every event state with the command FSM idle, cross pairs around flush/hold; states working on a variable are split per "
                         "variable (6) and event-handler jobs per return code (9); command buffer 6..8 bytes (shared buffers of any size 12..17, odd sizes included); queue capacity 1; plus the k_lanes job",
                "thorough": "all 26 x 11 state pairs (1516 jobs), command buffer 6..12 bytes"},
        outside="data_size 9..64, more than 3 commands / 6 variables, buffers above the family's sizes, misaligned data pointers supplied by the user, printf argument-type pedantry; "
                "RI admits some unreachable states (a counterexample from such a state is reported with its pre-state, see DESIGN.md 3.4)",
        assumptions=[RI_NOTE, FAMILY, "read/test handlers leave a NUL inside data[0..max_data_size)", "handlers run for unsolicited events do not return HOLD",
                     "fewer than 2^31 name characters in one line (length counter)"],
        level_text="inductive step, bounded descriptor family: memory safety and absence of UB of one call from ANY RI-state, hence along histories of any length; bounded by the family, not a proof"),
    "C04": dict(
        engine=E1,
        explanation="k_num.c: the real parse_write_args -> parse_int/uint_decimal / parse_num_hexadecimal -> validate_*_range sequence on an argument text of symbolic length and content, symbolic "
                    "access mode, previous contents, need_all_vars, variable-callback result and first/second argument position; accept/reject, stored value, write_size and untouched neighbours "
                    "are compared with a reference that decides by significant-digit count (cannot wrap).",
        bounds={"quick": "text length 0..12 with data_size symbolic in {1,2,3,4} for all three numeric types, plus text length 0..24 (beyond 2^64) for all three types at data_size 1",
                "thorough": "text length 0..24, data_size 1,2,4 and unsupported 3 as separate jobs, all three numeric types"},
        outside="texts longer than 24 characters; argument positions beyond the 2nd; the line-level path (C06 decides that the text reaches the parser unchanged)",
        assumptions=["the argument text reaches parse_write_args exactly as typed (C06)"],
        level_text="bounded model checking of the real kernel functions against an independent reference for every text up to the stated length"),
    "C05": dict(
        engine=E1,
        explanation="k_buf.c: the real parse_write_args -> parse_buffer_hexadecimal / parse_buffer_string on a symbolic text, variable of symbolic data_size 1..8 embedded between canaries, symbolic access, "
                    "callback result and argument position; reference decoders written as explicit automata decide accept/reject, decoded bytes, NUL, write_size; canaries decide 'no byte at or beyond data_size'.",
        bounds={"quick": "text length 0..16, data_size 1..8", "thorough": "text length 0..20, data_size 1..8; k_big.c: hex buffer of data_size 255..258, all-hex-digit text of decoded length data_size-1..data_size+1 (unwind 526)"},
        outside="data_size 9..64 (same loops; the thorough large-variable kernel k_big.c covers 255..258 for hex buffers with well-formed digits only), texts longer than 20 characters",
        assumptions=["a top-level comma inside the text is modelled by the explicit second-argument flag only"],
        level_text="bounded model checking of the real decoders against reference automata"),
    "C06": dict(
        engine=E3,
        explanation="r_args.c: fixed table (+A no variable, +B uint8, +C int8), line AT+k=<args>LF / AT+k?LF with argument bytes over all values except LF (CR included); the write handler's view "
                    "(bytes, length, NUL, args_num) is compared with the harness's copy of the sent bytes; arguments that do not fit must give ERROR with no handler / callback / variable change; the read "
                    "handler must be given the formatted text, its length and the true capacity (shared and separate event buffer).",
        bounds={"quick": "argument lengths 0,2,5,6,7,9 against command buffers of 6..8 bytes (shared) and 6,9 (separate), READ on both layouts; plus step jobs (s_step.c, states READ_LOOP / TEST_LOOP of "
                         "both machines, shared and separate event buffer of any size 0..8): every read/test handler is given its own machine's buffer, cursor and true capacity",
                "thorough": "argument lengths 0..10 shared, 0..9 separate"},
        outside="arguments beyond capacity+2 (the drain state is covered by C01/C03 step jobs), buffers above 8 bytes, more than one variable",
        assumptions=["handlers return terminal codes"],
        level_text="bounded model checking through the public API around the capacity boundary"),
    "C07": dict(
        engine=E1 + " + " + E3,
        explanation="k_rt.c: for symbolic values of 1-2 read-write variables the real READ formatter (start_processing_format_read_args + format_read_args) produces the argument list, the variables are "
                    "scrambled, and the real WRITE parser (parse_write_args) must accept that text and restore every value. snprintf is the witness-style model validated against libc. "
                    "r_args.c (transport leg): a WRITE line's argument bytes - anything but LF, '?' and '=' included - reach the argument parser / write handler unchanged, as a WRITE, answered by a result code alone.",
        bounds={"quick": "every bit pattern of 8/16/32-bit signed, unsigned and hex variables; all byte-buffer contents and all strings (any non-NUL byte) for data_size 1..8; homogeneous pairs at 8 bit; "
                         "command-buffer capacity symbolic from 6 bytes up to 16 / 22 (a response that does not fit must be refused, never cut and then accepted back); "
                         "k_big.c (WRITE leg only): hex buffer of data_size 255..258, every text of hex digits with decoded length data_size-1..data_size+1, unwind 526",
                "thorough": "additionally all 25 ordered type pairs"},
        outside="data_size 9..64 (and the READ formatter / strings / the full round trip above 8 bytes: k_big.c covers the hex WRITE leg at 255..258 only); three or more variables; argument texts longer than 5 (thorough 6) bytes at line level (the kernels take up to 22 / 40)",
        assumptions=["snprintf model (k_snprintf validation)", "strings are NUL-terminated inside data_size (length < data_size, the property's domain)"],
        level_text="bounded model checking over the complete value range of each listed type/width"),
    "C08": dict(
        engine=E2 + " + " + E3 + " + " + E1,
        explanation="s_step.c: after one call from any RI state the storage of every read-only variable is bit-identical (all states, all inputs, all histories). r_twin.c MODE 2: two guided runs of the same "
                    "READ / TEST line that differ only in the stored contents of write-only variables must emit identical bytes (non-interference). k_num.c / k_buf.c: a read-only variable keeps its value "
                    "for every argument text. k_access.c: the real READ / WRITE dispatch on 1-3 variables with symbolic access modes and handler presence refuses exactly when nothing is readable / "
                    "writable and there is no handler of that kind. k_wo.c: the real READ formatter run twice on (read-write uint8, write-only variable of each of the five types) where only the write-only "
                    "variable's stored bytes differ (any bytes, any string lengths): same text, same length, same 'fits / ERROR' decision for every command-buffer capacity 6..32.",
        bounds={"quick": "109 step jobs (as C03, built-in checks off), 3 twin shapes (ATn?L, ATnn?L, ATn=?L), 6 parser / dispatch kernel jobs, 5 formatter twin jobs (data_size 1..8)", "thorough": "1516 step jobs"},
        outside="unsolicited READ of write-only variables at line level (covered at step level only), more than 2 variables in the twin runs",
        assumptions=[RI_NOTE, FAMILY, "variable callbacks do not modify variable storage themselves"],
        level_text="inductive step for 'never modified', 2-safety by self-composition for 'never disclosed'; bounded descriptor family and line shapes"),
    "C09": dict(
        engine=E3,
        explanation="r_resolve.c (same jobs as C02): no handler or variable callback of a command that is disabled / in a disabled group ever runs, its variables never change, such commands neither match "
                    "nor make abbreviations ambiguous (the reference resolution ignores them); test-only commands answer only '=?'; a form with neither handler nor accessible variable gives ERROR.",
        bounds={"quick": "11 shapes, 3 commands in 2 groups, group and command disable flags symbolic", "thorough": "same"},
        outside="histories of flag changes between lines are represented by the flags being arbitrary at the start of each line (the parser keeps no per-command state between lines: C20)",
        assumptions=["handlers return terminal codes"],
        level_text="bounded model checking through the public API with symbolic flags"),
    "C10": dict(
        engine=E3,
        explanation="r_codes.c: one request per handler kind; the handler returns a symbolic sequence of NRC codes from {ERROR, DATA_OK, DATA_NEXT, NEXT, OK, HOLD_EXIT_OK, HOLD_EXIT_ERROR, "
                    "PRINT_CMD_LIST_OK where invalid, 9, -2} and may rewrite its buffer; a reference interpreter predicts invocation count, every emitted unit and the final code; variable callbacks may fail. "
                    "r_list.c covers PRINT_CMD_LIST_OK where it is valid. s_step.c adds one row of the table per call from ANY state (write/run/read/test loops of the command FSM with a symbolic code, "
                    "read/test loops of the event FSM with each of 9 concrete codes): next state / emission / result code exactly as the table says, no result code for events - so sequences of any length follow by induction.",
        bounds={"quick": "sequences of 3 codes (read/test) and 4 codes (write/run), shared buffer 6..8 bytes and separate 18..20-byte buffer", "thorough": "5 / 6 codes"},
        outside="longer code sequences (each further code repeats the same arm; step jobs of C03/C15 cover single steps from any state), handlers of unsolicited events at line level (step level only)",
        assumptions=["the last code of a sequence is terminal (the property's premise)"],
        level_text="bounded model checking through the public API over all code sequences of the stated length"),
    "C11": dict(
        engine=E2 + " + " + E3,
        explanation="s_step.c obligations from any RI state: never both machines in FLUSH_IO_WRITE (part of RI); at most one io->write attempt per call, only by a machine that is flushing, offering the byte "
                    "under its own cursor; cursor advances by one iff accepted; a flush is entered only from its wait state with the cursor on the first byte of a unit and left only at the NUL of the "
                    "trailing newline; a machine that is not formatting does not have its buffer (its half of a shared buffer of any size, odd sizes included; halves computed by the harness) modified. Together these imply whole, non-interleaved units for every schedule and history."
                    " r_evq.c (black box, public API, events only): two triggers with concrete (command, read|test kind) at symbolic steps (first inside a 3-step window, second 0..4 steps later), one io->write refusal at a symbolic step, queue capacity 1, 2 or 3; monitors: the output parses into whole newline-framed units, each with exactly the producer's text (+B=207 / +C=), one per accepted event.",
        bounds={"quick": "109 step jobs + 6 event-only runs (50 calls)", "thorough": "1516 step jobs + 162 event-only runs"},
        outside="a command response and an event line in flight together are decided at step level only (r_events.c, the line-level scenario with both machines active, is kept unregistered: DESIGN.md 9.6); the argument from the lemmas to the stream property is on paper (DESIGN.md C11)",
        assumptions=[RI_NOTE, FAMILY],
        level_text="inductive step lemmas decided by the solver; the composition argument is manual"),
    "C12": dict(
        engine=E2 + " + " + E3,
        explanation="s_step.c: a call in which the read is refused leaves the command FSM, its buffer and the variables unchanged and makes no callback; a refused write leaves the flushing machine unchanged; "
                    "reading states poll the input (at least one attempt; not 'exactly one': the property does not forbid draining several available bytes per call), other states never read. r_twin.c MODE 1: the same line run eagerly and under a symbolic schedule - up to R read and R write refusals at symbolic service steps plus one refusal tied to a symbolic BYTE boundary "
                    "(the first attempt to read byte `cut` is answered 'not yet', also between two reads of one call) - gives the same output bytes, handler log, write-handler arguments and variable values.",
        bounds={"quick": "109 step jobs + 3 twin shapes (ATnL run, gxL malformed line with a possible CR, ATnRnL CR inside the name) with <= 1 read and <= 1 write refusal at arbitrary steps + the byte-boundary refusal", "thorough": "1516 step jobs + 4 twin shapes (quick's three + ATn?L; <= 1 refusal of each kind + the byte-boundary refusal; two of each kind and the write shape ATn=aL were tried and do not converge within the budget)"},
        outside="more refusals in one line at line level (the step lemma covers any number)",
        assumptions=[RI_NOTE, FAMILY, "io->read returns 0 or 1 and leaves *ch alone when it returns 0"],
        level_text="inductive stutter lemma plus bounded self-composition"),
    "C13": dict(
        engine=E2 + " + " + E3,
        explanation="s_api.c: from any ring state satisfying the ring clause, trigger appends iff fewer than CAPACITY entries wait, else BUFFER_FULL and nothing changes; buffer_full, event_buffered and "
                    "get_processed_command agree with the abstract queue. s_step.c: only the idle event FSM pops, exactly the oldest entry, which becomes the event in progress; no other call changes the queue; the event in progress ends (a terminal handler code returns the event FSM to idle, DATA_OK leads to one final line, "
                    "the after-flush states return to idle) - so an accepted event is processed once and the next one gets its turn."
                    " r_evq.c (black box, public API, events only): two triggers with concrete (command, read|test kind) at symbolic steps (first inside a 3-step window, second 0..4 steps later), one io->write refusal at a symbolic step, queue capacity 1, 2 or 3; monitors: cat_is_unsolicited_buffer_full predicts every trigger result, a trigger is refused only when the queue is full, every accepted event's handler runs exactly once in acceptance order "
                    "and its line is emitted exactly once.",
        bounds={"quick": "capacities 1,2,3: 6 API functions each + 14 step pairs each + 2 event-only runs each (two events)", "thorough": "capacities 1,2,3,8; 162 event-only runs (all 9 kind pairs, 3 windows, handler codes DATA_OK and OK)"},
        outside="more than two events in one black-box run (the step induction covers any number); ring indices far from their initial values are reached only by the step induction",
        assumptions=[RI_NOTE],
        level_text="inductive step per operation against an abstract FIFO"),
    "C14": dict(
        engine=E2,
        explanation="s_step.c: in HOLD no io->read happens; hold is left only if a release was requested (status != 0, or an event handler returned HOLD_EXIT_OK / HOLD_EXIT_ERROR in this very call - no other code, no failing event), and no request appears that nobody made; leaving goes straight into the matching result code; a pending "
                    "request is honoured in the next call; entering hold clears any stale request. s_api.c: cat_hold_exit outside a hold = ERROR_NOT_HOLD and no effect, inside = records the status only."
                    " r_hold.c (black box, public API): each of the four handler kinds returns HOLD with a second line already waiting; release through cat_hold_exit at a symbolic step "
                    "of a window, symbolic status, optionally twice in one step with different statuses, optional spurious releases before and after: no input byte and no result code during the "
                    "suspension, cat_is_hold = HOLD exactly then, one result code matching the last requested status, then the second line is parsed and answered.",
        bounds={"quick": "96 step jobs (HOLD x all event states with a shared and with a separate event buffer of any size, the four handler loops, event handler loops with each of 9 concrete codes) + 4 line-level jobs (release window right after the hold begins)", "thorough": "5 release windows per kind"},
        outside="release through an event handler returning HOLD_EXIT_* at line level (step level only); event handlers returning HOLD are outside the property",
        assumptions=[RI_NOTE, FAMILY],
        level_text="inductive step obligations"),
    "C15": dict(
        engine=E2 + " + " + E3,
        explanation="safety: s_step.c with two consecutive calls (the application may trigger one event from inside io->read or a handler of the first call) - if the first returns OK, an immediately repeated call with no input returns OK, invokes no callback, writes nothing, changes nothing, and no event "
                    "is queued or in progress. liveness: local progress obligations (OK only from a call that made no read attempt or whose last attempt was refused; a reading state whose read is refused, with no event pending, reports OK - waiting for input is not work; no starvation at the flush handshake in either direction, accepted byte advances the cursor, section ends advance, computing "
                    "states change something) plus the explicit linear step bound of the r_line shapes and of the event-only runs (r_evq.c: two events and a write refusal end in OK with nothing queued within 50 calls).",
        bounds={"quick": "queue capacities 1 (all quick pairs) and 2 (event-related pairs), 5 line shapes, 6 event-only runs",
                "thorough": "capacity 1: the quick pairs plus every command state against the event FSM waiting for the output / flushing (command buffers up to 12 bytes); capacities 2,3,8: event-related pairs"},
        outside="a global ranking-function proof of termination is not attempted; hold is not 'stimulus-free'",
        assumptions=[RI_NOTE, FAMILY],
        level_text="inductive safety step + local progress lemmas + bounded runs"),
    "C16": dict(
        engine=E2,
        explanation="s_api.c (MUTEX=1) for the seven small locking functions and s_step.c (MUTEX=1) for cat_service from every state: lock is called first and once, never while held; every io / handler / "
                    "variable callback happens while locked; nothing is touched before lock or after unlock; lock failure = ERROR_MUTEX_LOCK with the object and buffers unchanged and no callback; unlock "
                    "failure = ERROR_MUTEX_UNLOCK; RI afterwards (subsequent calls behave normally).",
        bounds={"quick": "7 functions x capacities 1,2 + 102 cat_service state pairs", "thorough": "capacities 1,2,3,8 + 1516 pairs"},
        outside="nothing beyond the descriptor family",
        assumptions=[RI_NOTE, FAMILY, "lock/unlock return arbitrary ints"],
        level_text="inductive step per API function with symbolic lock/unlock outcomes"),
    "C17": dict(
        engine=E2, level="other",
        explanation="lock-set reduction: s_api.c with HAVOC=1 replaces the shared fields (ring, hold flag/status) by any other valid value inside the lock callback and again inside the unlock callback; result and "
                    "effect of each locking function must be functions of the state found under the lock only, and nothing may be written after unlock; s_step.c (MUTEX=1) shows that cat_service touches state "
                    "and makes callbacks only inside the bracket. With a correct mutex this serialises all accesses; the sequential FIFO facts are C13's. Thread interleavings themselves are NOT explored: "
                    "CBMC rejects this code under its thread encoding ('pointer handling for concurrency is unsound').",
        bounds={"quick": "7 functions x capacities 1,2 + 102 cat_service pairs", "thorough": "capacities 1,2,3,8"},
        outside="the interleaving quantifier itself; the two documented unlocked observers (cat_get_processed_command, cat_is_unsolicited_event_buffered)",
        assumptions=[RI_NOTE, "the user's mutex provides mutual exclusion with acquire/release ordering", "the lock-set argument (every access inside a critical section => no data race, serialisability)"],
        level_text="sufficient sequential condition decided by the solver, not a schedule exploration"),
    "C18": dict(
        engine=E2 + " + " + E3,
        explanation="s_step.c: if cat_is_busy() = OK before a call then no machine is in or about to enter a flush and the next call (no input, no event) writes nothing and calls nothing; cat_is_hold() = HOLD iff "
                    "the command FSM is suspended (s_api.c too). r_line.c samples cat_is_busy after every service call of a guided run: OK only with no partial line, nothing owed and no open unit; OK once quiescent. r_evq.c does the same along event-only runs (never OK inside an event unit); "
                    "r_hold.c samples cat_is_hold along a held command with real and spurious releases.",
        bounds={"quick": "109 step jobs + 2 API jobs + 6 line shapes + 1 hold run + 6 event-only runs", "thorough": "1516 step jobs + free-byte shape"},
        outside="sampling with a command line AND an event in flight together (step level only)",
        assumptions=[RI_NOTE, FAMILY],
        level_text="inductive step obligations over observables + bounded black-box sampling"),
    "C19": dict(
        engine=E1 + " + " + E3,
        explanation="k_test.c: the real '=?' formatter on 1-2 (thorough 3) variables with symbolic type, width, access, name presence, description, capacity 6..64: text compared byte for byte with the reference, "
                    "ERROR iff it does not fit or a width is unsupported. r_list.c: a run handler (of the first command, or of the last one so that the first command / first group may be disabled) returns PRINT_CMD_LIST_OK; 2 (thorough 3) commands in 2 groups with symbolic handler subsets and flags; "
                    "every emitted byte is compared online with the reference listing driven by advertised(cmd, form) = the dispatcher's own acceptance rule; lines that do not fit give ERROR.",
        bounds={"quick": "k_test NV=1,2; r_list M=2 with command buffers of 10..11 and 7..8 bytes, request from the first and from the last command", "thorough": "k_test NV=3; r_list M=3 (10..11 and 6..9 bytes)"},
        outside="implicit-write commands that own variables (excepted by the property); names longer than 2 characters; more than 3 commands",
        assumptions=["snprintf is not involved", "the dispatcher's acceptance rule is the one checked by C02/C09"],
        level_text="bounded model checking of the formatter kernel and of the listing through the public API"),
    "C20": dict(
        engine=E3,
        explanation="r_twin.c MODE 0: the same symbolic line is answered by a parser fresh from cat_init and by one at IDLE with every scratch field and the whole working buffer havocked (what any earlier line can "
                    "leave behind by RI's IDLE clause): identical output bytes, handler log, write-handler arguments, variable values. r_twin.c MODE 3 (concatenation, the property's own wording): two lines "
                    "on one parser vs the second line alone on a fresh parser with the variable values line 1 left - everything emitted after line 1's answer, the handler invocations and the variable "
                    "effects must be equal; first lines are chosen to leave the parser through its different exits (over-long implicit write, garbage, write). r_line.c: every newline of a response is "
                    "CRLF iff a CR followed the line's first non-blank byte (CR before A, between A and T, after AT, after the name, after the arguments). s_step.c (PARSE_WRITE_ARGS, numeric variables, any pre-state): the length handed to a variable write callback is 0 for a read-only variable and data_size for a stored number - never a leftover of an earlier line; the twin runs compare that length too. r_list.c: the same for every line of a multi-line answer (the command list after AT+A<LF> and AT+A<CR><LF>).",
        bounds={"quick": "7 fresh-vs-junk shapes + 3 concatenation shapes + 7 CR-placement shapes + 1 command-list run + 4 step jobs", "thorough": "7 concatenation shapes"},
        outside="lines longer than the shapes; that IDLE's defined fields are exactly {state, cr_flag, hold flag, cmd, cmd_type} is RI's IDLE clause (C03 jobs)",
        assumptions=["handlers return terminal codes", RI_NOTE],
        level_text="bounded self-composition through the public API; 'after any history' rests on the inductive IDLE clause of RI"),
}
