#!/usr/bin/env python3
"""
vlib.py - job runner for the CBMC-based checks (DESIGN.md section 3).

A *job* = one harness file + build macros + bounds. For every job the runner
  1. builds the harness natively against /repo/src/cat.c (gcc) and runs a random sample of
     scenario instances: validates the monitors against the real code, counts witness hits and
     (for guided E3 runs) records the per-step FSM-state hint sets;
  2. generates the hint header, runs CBMC (the deciding step), parses the JSON result;
  3. on "hint-incomplete" failures replays the counterexample natively, adds the missing states
     and reruns (bounded number of refinements);
  4. on a real failure extracts the scenario bytes from the trace, replays them against the
     natively compiled real code (ASan+UBSan) and reports the violation only if it reproduces;
  5. optionally runs the -DWITNESS_MODE twin: every witness point must be reachable.
Nothing here is cached between runs: the encoding is regenerated from /repo's working tree.
"""
import json, os, re, subprocess, sys, time, shutil, tempfile, hashlib, threading
from concurrent.futures import ThreadPoolExecutor, as_completed

VERIF = os.path.dirname(os.path.dirname(os.path.abspath(__file__)))
HARNESS = os.path.join(VERIF, "harness")
REPO = os.environ.get("VERIF_REPO", "/repo")
CAT_C = os.path.join(REPO, "src", "cat.c")
REPLAYS = os.environ.get("VERIF_REPLAYS", os.path.join(VERIF, "replays"))
INFRA_PAT = re.compile(r"hint-incomplete|snprintf-model|unwinding assertion|recursion unwinding")
STATE_NAMES = {-1: "ERROR", 0: "IDLE", 1: "PARSE_PREFIX", 2: "PARSE_COMMAND_CHAR", 3: "UPDATE_COMMAND_STATE",
               4: "WAIT_READ_ACKNOWLEDGE", 5: "SEARCH_COMMAND", 6: "COMMAND_FOUND", 7: "COMMAND_NOT_FOUND",
               8: "PARSE_COMMAND_ARGS", 9: "PARSE_WRITE_ARGS", 10: "FORMAT_READ_ARGS", 11: "WAIT_TEST_ACKNOWLEDGE",
               12: "FORMAT_TEST_ARGS", 13: "WRITE_LOOP", 14: "READ_LOOP", 15: "TEST_LOOP", 16: "RUN_LOOP", 17: "HOLD",
               18: "FLUSH_IO_WRITE_WAIT", 19: "FLUSH_IO_WRITE", 20: "AFTER_FLUSH_RESET", 21: "AFTER_FLUSH_OK",
               22: "AFTER_FLUSH_FORMAT_READ_ARGS", 23: "AFTER_FLUSH_FORMAT_TEST_ARGS", 24: "PRINT_CMD"}


class Job:
    def __init__(self, name, harness, defines=None, unwind=None, unwindset=None, checks=False, solver="minisat",
                 timeout=600, hinted=False, samples=2000, witness=True, object_bits=None, mem_gb=14,
                 max_refine=10, extra=None, note="", required_witness=None):
        self.name = name
        self.harness = harness
        self.defines = dict(defines or {})
        self.unwind = unwind
        self.unwindset = dict(unwindset or {})
        self.checks = checks
        self.solver = solver
        self.timeout = timeout
        self.hinted = hinted
        self.samples = samples
        self.witness = witness
        self.object_bits = object_bits
        self.mem_gb = mem_gb
        self.max_refine = max_refine
        self.extra = list(extra or [])
        self.note = note
        # witness goals that must be reachable (others are reported but not required: not every goal applies to every shape)
        self.required_witness = list(required_witness) if required_witness is not None else ["end-of-scenario"]


def dflags(defines):
    out = []
    for k, v in defines.items():
        out.append("-D%s" % k if v is None else "-D%s=%s" % (k, v))
    return out


def run(cmd, timeout=None, mem_gb=None, cwd=None, env=None):
    """run a command, return (rc, stdout, stderr, seconds, timed_out)"""
    pre = None
    if mem_gb:
        import resource

        def pre():
            lim = int(mem_gb * 1024 ** 3)
            resource.setrlimit(resource.RLIMIT_AS, (lim, lim))
    t0 = time.time()
    try:
        p = subprocess.run(cmd, stdout=subprocess.PIPE, stderr=subprocess.PIPE, timeout=timeout, cwd=cwd,
                           preexec_fn=pre, env=env, start_new_session=True)
        return p.returncode, p.stdout.decode("utf-8", "replace"), p.stderr.decode("utf-8", "replace"), time.time() - t0, False
    except subprocess.TimeoutExpired as e:
        # kill the whole process group (cbmc forks kissat)
        try:
            subprocess.run(["pkill", "-9", "-f", " ".join(cmd[:1]) + ".*" + os.path.basename(cwd or "")], stdout=subprocess.DEVNULL, stderr=subprocess.DEVNULL)
        except Exception:
            pass
        out = e.stdout.decode("utf-8", "replace") if e.stdout else ""
        return -9, out, "timeout", time.time() - t0, True


def run_to(cmd, timeout, mem_gb=None, cwd=None, env=None):
    """like run() but kills the process group reliably on timeout"""
    import signal
    pre = None
    if mem_gb:
        import resource

        def pre():
            lim = int(mem_gb * 1024 ** 3)
            resource.setrlimit(resource.RLIMIT_AS, (lim, lim))
    t0 = time.time()
    p = subprocess.Popen(cmd, stdout=subprocess.PIPE, stderr=subprocess.PIPE, cwd=cwd, preexec_fn=pre, env=env,
                         start_new_session=True)
    try:
        out, err = p.communicate(timeout=timeout)
        return p.returncode, out.decode("utf-8", "replace"), err.decode("utf-8", "replace"), time.time() - t0, False
    except subprocess.TimeoutExpired:
        try:
            os.killpg(p.pid, signal.SIGKILL)
        except Exception:
            pass
        try:
            out, err = p.communicate(timeout=10)
        except Exception:
            out, err = b"", b""
        return -9, out.decode("utf-8", "replace"), "timeout", time.time() - t0, True


# ------------------------------------------------------------------------------------------------
# native side


def build_native(job, workdir, asan=False):
    exe = os.path.join(workdir, job.name + (".asan" if asan else ".nat"))
    cmd = ["gcc", "-w", "-O1", "-I", HARNESS, '-DCAT_C_PATH="%s"' % CAT_C] + dflags(job.defines)
    if asan:
        cmd += ["-g", "-fsanitize=address,undefined", "-fno-sanitize-recover=all"]
    cmd += [os.path.join(HARNESS, job.harness), "-o", exe]
    rc, out, err, dt, to = run_to(cmd, 120)
    if rc != 0:
        return None, err[-2000:]
    return exe, ""


def parse_sample_output(out):
    hints = {}
    wit = {}
    samples = []
    fails = []
    stats = {}
    lastf = None
    for line in out.splitlines():
        if line.startswith("H "):
            f = [int(x) for x in line.split()[1:]]
            hints.setdefault((f[0], f[1]), set()).add(tuple(f[2:]))
        elif line.startswith("W "):
            name, cnt = line[2:].rsplit(" ", 1)
            wit[name] = int(cnt)
        elif line.startswith("X "):
            samples.append(line[2:].strip())
        elif line.startswith("F "):
            lastf = line[2:].strip()
        elif line.startswith("FX "):
            fails.append((lastf, line[3:].strip()))
        elif line.startswith("SAMPLES "):
            for kv in line.split()[1:]:
                k, v = kv.split("=")
                stats[k] = int(v)
    return hints, wit, samples, fails, stats


def sample_native(exe, n, seed):
    rc, out, err, dt, to = run_to([exe, "--sample", str(n), str(seed)], 300)
    if rc != 0:
        return None, "sampler rc=%s %s" % (rc, err[-500:])
    return parse_sample_output(out), ""


def replay_native(exe, hexstr, workdir, tag):
    path = os.path.join(workdir, tag + ".hex")
    with open(path, "w") as f:
        f.write(hexstr + "\n")
    env = dict(os.environ)
    env["ASAN_OPTIONS"] = "detect_leaks=0:exitcode=99:abort_on_error=0"
    env["UBSAN_OPTIONS"] = "print_stacktrace=0:halt_on_error=1:exitcode=98"
    rc, out, err, dt, to = run_to([exe, "--replay", path], 60, env=env)
    failed = [l[len("CHECK-FAILED "):] for l in out.splitlines() if l.startswith("CHECK-FAILED ")]
    traj = []
    for l in out.splitlines():
        m = re.match(r"STEP lane=(\d+) k=(\d+) state=(-?\d+) ustate=(\d+) cmd=(-?\d+) var=(-?\d+) index=(-?\d+) type=(-?\d+) ucmd=(-?\d+) uvar=(-?\d+) uindex=(-?\d+)", l)
        if m:
            traj.append(tuple(int(x) for x in m.groups()))
    result = "ok"
    for l in out.splitlines():
        if l.startswith("RESULT "):
            result = l[7:]
    san = ""
    if rc in (98, 99) or "ERROR: AddressSanitizer" in err or "runtime error:" in err:
        m = re.search(r"(ERROR: AddressSanitizer[^\n]*|[^\n]*runtime error:[^\n]*)", err)
        san = m.group(1) if m else "sanitizer report"
    elif rc < 0 or rc >= 128 or (rc not in (0, 1, 3, 4)):
        san = "crash rc=%s %s" % (rc, err.strip().splitlines()[-1] if err.strip() else "")
    return {"rc": rc, "result": result, "failed": failed, "traj": traj, "sanitizer": san, "out": out[-3000:], "err": err[-1500:]}


# ------------------------------------------------------------------------------------------------
# hints


def gen_hints(hints, path):
    """hints: {(lane,k): set((state,ustate))}"""
    lines = ["/* generated per run from native traces; only a performance device: the default arm is a proof obligation */",
             "static int vf_var_other(struct cat_object *at)", "{",
             "        const struct cat_variable *b = at->cmd ? at->cmd->var : NULL;",
             "        return at->var != NULL && !(b != NULL && at->var >= b && at->var < b + at->cmd->var_num);", "}",
             "static cat_status hinted_service(int lane, int k, struct cat_object *at)", "{",
             "        switch (lane * 1000 + k) {"]
    for (lane, k) in sorted(hints):
        lines.append("        case %d:" % (lane * 1000 + k))
        for (s, u, c, v, i, t, uc, uv, ui) in sorted(hints[(lane, k)]):
            if c >= 0:
                cond = "at->cmd == &vf_cmd_base[%d]" % c
                setc = " at->cmd = &vf_cmd_base[%d];" % c
            elif c == -1:
                cond = "at->cmd == NULL"
                setc = " at->cmd = NULL;"
            else:
                cond = "VF_CMDIDX(at->cmd) == -2"
                setc = ""
            if v >= 0 and c >= 0:
                cond += " && at->var == &vf_cmd_base[%d].var[%d]" % (c, v)
                setc += " at->var = &vf_cmd_base[%d].var[%d];" % (c, v)
            elif v == -1:
                cond += " && at->var == NULL"
                setc += " at->var = NULL;"
            elif v == -2:
                cond += " && vf_var_other(at)"
            if i >= 0:
                cond += " && at->index == %d" % i
                setc += " at->index = %d;" % i
            elif i == -2:
                cond += " && at->index >= 64"
            if t >= -1:
                cond += " && at->cmd_type == (cat_cmd_type)(%d)" % t
                setc += " at->cmd_type = (cat_cmd_type)(%d);" % t
            elif t == -2:
                cond += " && ((int)at->cmd_type < -1 || (int)at->cmd_type > 4)"
            if uc >= 0:
                cond += " && at->unsolicited_fsm.cmd == &vf_cmd_base[%d]" % uc
                setc += " at->unsolicited_fsm.cmd = &vf_cmd_base[%d];" % uc
            elif uc == -1:
                cond += " && at->unsolicited_fsm.cmd == NULL"
                setc += " at->unsolicited_fsm.cmd = NULL;"
            elif uc == -2:
                cond += " && VF_CMDIDX(at->unsolicited_fsm.cmd) == -2"
            if uv >= 0 and uc >= 0:
                cond += " && at->unsolicited_fsm.var == &vf_cmd_base[%d].var[%d]" % (uc, uv)
                setc += " at->unsolicited_fsm.var = &vf_cmd_base[%d].var[%d];" % (uc, uv)
            elif uv == -1:
                cond += " && at->unsolicited_fsm.var == NULL"
            if ui >= 0:
                cond += " && at->unsolicited_fsm.index == %d" % ui
                setc += " at->unsolicited_fsm.index = %d;" % ui
            lines.append("                if (at->state == (cat_state)(%d) && at->unsolicited_fsm.state == (cat_unsolicited_state)(%d) && %s) {" % (s, u, cond))
            lines.append("                        at->state = (cat_state)(%d); at->unsolicited_fsm.state = (cat_unsolicited_state)(%d);%s" % (s, u, setc))
            lines.append("                        return cat_service(at);")
            lines.append("                }")
        lines.append("                break;")
    lines += ["        default:", "                break;", "        }",
              '        __CPROVER_assert(0, "hint-incomplete: a (step, state) pair outside the hinted sets is reachable");',
              "        __CPROVER_assume(0);", "        return CAT_STATUS_OK;", "}"]
    with open(path, "w") as f:
        f.write("\n".join(lines) + "\n")


# ------------------------------------------------------------------------------------------------
# cbmc


def cbmc_cmd(job, hints_path, witness=False):
    cmd = ["cbmc", "-I", HARNESS, '-DCAT_C_PATH="%s"' % CAT_C] + dflags(job.defines)
    if witness:
        cmd.append("-DWITNESS_MODE")
    elif job.solver == "kissat":
        cmd.append("-DNO_WITNESS")
    if hints_path:
        cmd.append('-DHINTS_FILE="%s"' % hints_path)
    cmd.append(os.path.join(HARNESS, job.harness))
    if not job.checks or witness:
        cmd.append("--no-standard-checks")
    else:
        cmd += ["--pointer-overflow-check"]
    cmd += ["--unwinding-assertions", "--drop-unused-functions", "--slice-formula"]
    if job.unwind is not None:
        cmd += ["--unwind", str(job.unwind)]
    if job.unwindset:
        cmd += ["--unwindset", ",".join("%s:%d" % (k, v) for k, v in job.unwindset.items())]
    if job.object_bits:
        cmd += ["--object-bits", str(job.object_bits)]
    if job.solver == "kissat":
        cmd += ["--external-sat-solver", "kissat"]
    elif job.solver == "cadical":
        cmd += ["--sat-solver", "cadical"]
    cmd += job.extra
    cmd += ["--trace", "--json-ui", "--verbosity", "8"]
    return cmd


def leaves(v, out):
    if v is None:
        return
    if "members" in v:
        for m in v["members"]:
            leaves(m.get("value"), out)
    elif "elements" in v:
        for e in v["elements"]:
            leaves(e.get("value"), out)
    elif "binary" in v:
        out.append(int(v["binary"], 2) & 0xFF)
    elif "data" in v:
        try:
            out.append(int(v["data"]) & 0xFF)
        except Exception:
            out.append(0)
    else:
        out.append(0)


def scen_layout(job):
    """field layout of struct scen (bytes only) from the preprocessed harness: {name: (offset, dims)}, total size"""
    cmd = ["gcc", "-E", "-P", "-w", "-I", HARNESS, '-DCAT_C_PATH="%s"' % CAT_C] + dflags(job.defines) + [os.path.join(HARNESS, job.harness)]
    rc, out, err, dt, to = run_to(cmd, 60)
    m = re.search(r"struct\s+scen\s*\{(.*?)\}\s*;", out, re.S)
    if not m:
        return None, 0
    off = 0
    lay = {}
    fields = []
    exprs = []
    for decl in m.group(1).split(";"):
        decl = decl.strip()
        if not decl:
            continue
        hm = re.match(r"unsigned\s+char\s+(.*)$", decl, re.S)
        if not hm:
            raise RuntimeError("struct scen may only hold unsigned char fields: %r" % decl)
        for one in hm.group(1).split(","):
            dm = re.match(r"\s*(\w+)\s*((?:\[[^\]]*\]\s*)*)$", one)
            if not dm:
                raise RuntimeError("struct scen: cannot parse declarator %r" % one)
            ds = re.findall(r"\[([^\]]*)\]", dm.group(2))
            fields.append((dm.group(1), len(ds)))
            exprs += ds
    vals = []
    if exprs:
        # dimension expressions are C constant expressions: let the C compiler evaluate them
        src = "#include <stdio.h>\nint main(void){" + "".join('printf("%%d\\n",(int)(%s));' % e for e in exprs) + "return 0;}\n"
        td = tempfile.mkdtemp(prefix="catverif_lay_")
        try:
            open(os.path.join(td, "l.c"), "w").write(src)
            rc, o, e, dt, to = run_to(["gcc", "-w", os.path.join(td, "l.c"), "-o", os.path.join(td, "l")], 60)
            rc, o, e, dt, to = run_to([os.path.join(td, "l")], 20)
            vals = [int(x) for x in o.split()]
        finally:
            shutil.rmtree(td, ignore_errors=True)
    vi = 0
    for name, nd in fields:
        dims = vals[vi:vi + nd]
        vi += nd
        n = 1
        for d in dims:
            n *= d
        lay[name] = (off, dims)
        off += n
    return lay, off


def scen_from_trace(trace, layout=None):
    lay, size = layout if layout else (None, 0)
    last = None
    leafs = {}
    for st in trace:
        if st.get("stepType") != "assignment" or "value" not in st:
            continue
        lhs = st.get("lhs") or ""
        if lhs == "S":
            last = st["value"]
            leafs = {}
        elif lhs.startswith("S.") and "binary" in st["value"]:
            leafs[lhs] = int(st["value"]["binary"], 2) & 0xFF
    out = []
    if last is not None:
        leaves(last, out)
    if lay:
        if len(out) < size:
            out = out + [0] * (size - len(out))
        for lhs, val in leafs.items():
            m = re.match(r"S\.(\w+)((?:\[\d+l?\])*)$", lhs)
            if not m or m.group(1) not in lay:
                continue
            off, dims = lay[m.group(1)]
            idx = [int(x) for x in re.findall(r"\[(\d+)l?\]", m.group(2))]
            if len(idx) != len(dims):
                continue
            o = 0
            for i, d in zip(idx, dims):
                o = o * d + i
            if off + o < size:
                out[off + o] = val
    if not out:
        return None
    return "".join("%02x" % b for b in out)


def decode_scen(hexs, lay):
    """named view of a scenario (struct scen bytes) for the evidence file"""
    if not lay:
        return {"bytes_hex": hexs}
    b = bytes.fromhex(hexs)
    out = {}
    for name, (off, dims) in lay.items():
        n = 1
        for d in dims:
            n *= d
        chunk = b[off:off + n]
        if not dims:
            out[name] = chunk[0] if chunk else 0
        elif name in ("in", "text", "nm", "buf", "jbuf", "ubuf", "hbuf") or all(32 <= c < 127 for c in chunk):
            out[name] = chunk.decode("latin-1").encode("unicode_escape").decode("ascii")
        elif n <= 24:
            out[name] = list(chunk)
        else:
            out[name] = chunk.hex()
    return out


def parse_cbmc(out):
    res = {"props": [], "status": None, "vars": 0, "clauses": 0, "steps": 0, "solver_s": 0.0, "symex_s": 0.0, "messages": []}
    try:
        data = json.loads(out)
    except Exception:
        # truncated JSON (timeout / OOM): salvage messages
        res["status"] = "parse-error"
        return res
    for e in data:
        if "messageText" in e:
            t = e["messageText"]
            m = re.search(r"(\d+) variables, (\d+) clauses", t)
            if m:
                res["vars"] = max(res["vars"], int(m.group(1)))
                res["clauses"] = max(res["clauses"], int(m.group(2)))
            m = re.search(r"size of program expression: (\d+) steps", t)
            if m:
                res["steps"] = int(m.group(1))
            m = re.search(r"Runtime Solver: ([\d.e+-]+)s", t)
            if m:
                res["solver_s"] += float(m.group(1))
            m = re.search(r"Runtime decision procedure: ([\d.e+-]+)s", t)
            if m:
                res["solver_s"] = max(res["solver_s"], float(m.group(1)))
            m = re.search(r"Runtime Symex: ([\d.e+-]+)s", t)
            if m:
                res["symex_s"] += float(m.group(1))
            if e.get("messageType") == "ERROR":
                res["messages"].append(t[:300])
        if "result" in e:
            for r in e["result"]:
                res["props"].append({"name": r.get("property"), "desc": r.get("description", ""), "status": r.get("status"),
                                     "func": (r.get("sourceLocation") or {}).get("function", ""),
                                     "file": (r.get("sourceLocation") or {}).get("file", ""),
                                     "line": (r.get("sourceLocation") or {}).get("line", ""),
                                     "trace": r.get("trace")})
        if "cProverStatus" in e:
            res["status"] = e["cProverStatus"]
    return res


def list_functions(job, workdir, hints_path):
    """functions of cat.c that carry at least one CBMC proof obligation reachable from the harness (all checks on)"""
    cmd = ["cbmc", "-I", HARNESS, '-DCAT_C_PATH="%s"' % CAT_C] + dflags(job.defines)
    if hints_path:
        cmd.append('-DHINTS_FILE="%s"' % hints_path)
    cmd += [os.path.join(HARNESS, job.harness), "--drop-unused-functions", "--show-properties", "--json-ui"]
    rc, out, err, dt, to = run_to(cmd, 120)
    fns = set()
    try:
        for e in json.loads(out):
            for p in e.get("properties", []):
                sl = p.get("sourceLocation") or {}
                if sl.get("file", "").endswith("cat.c"):
                    fns.add(sl.get("function"))
    except Exception:
        pass
    return sorted(f for f in fns if f)


# ------------------------------------------------------------------------------------------------
# one job


def run_job(job, workdir, prop, seed=0, log=None):
    """returns a result dict; status in proved / violated / inconclusive"""
    t0 = time.time()
    R = {"job": job.name, "harness": job.harness, "defines": job.defines, "status": "inconclusive", "reason": "",
         "failed": [], "replay": None, "cbmc_runs": 0, "refinements": 0, "obligations": 0, "proved": 0,
         "vars": 0, "clauses": 0, "steps": 0, "solver_s": 0.0, "symex_s": 0.0, "cbmc_wall_s": 0.0,
         "native": {}, "witness": {}, "hint_pairs": 0, "hint_steps": 0, "samples": [], "functions": [], "solver": job.solver,
         "bounds": {"unwind": job.unwind, "unwindset": job.unwindset}, "note": job.note, "native_fail": None,
         "unconfirmed": []}

    def say(msg):
        if log:
            log("[%s] %s" % (job.name, msg))

    os.makedirs(workdir, exist_ok=True)
    layout = scen_layout(job)
    R["layout"] = layout[0] if layout else None
    nat, err = build_native(job, workdir)
    if nat is None:
        R["reason"] = "harness does not compile natively against this tree: " + err[-400:]
        return R
    hints = {}
    sres, err = sample_native(nat, job.samples, seed + 1)
    if sres is None:
        R["reason"] = "native sampler failed: " + err
        return R
    hints, wit, samples, nfails, nstats = sres
    R["native"] = dict(nstats)
    R["native"]["witness_hits"] = wit
    R["samples"] = samples[:3]
    if nfails:
        R["native_fail"] = {"obligation": nfails[0][0], "scen": nfails[0][1]}
        say("native sample violates monitor: %s" % nfails[0][0])
    hints_path = None
    asan = None

    def get_asan():
        nonlocal asan
        if asan is None:
            asan, e = build_native(job, workdir, asan=True)
        return asan

    final = None
    for it in range(job.max_refine + 1):
        if job.hinted:
            hints_path = os.path.join(workdir, job.name + ".hints.h")
            gen_hints(hints, hints_path)
        cmd = cbmc_cmd(job, hints_path)
        rc, out, err, dt, to = run_to(cmd, job.timeout, mem_gb=job.mem_gb, cwd=workdir)
        R["cbmc_runs"] += 1
        R["cbmc_wall_s"] += dt
        if to:
            R["reason"] = "cbmc timeout after %ds" % job.timeout
            say(R["reason"])
            break
        pr = parse_cbmc(out)
        if pr["status"] in (None, "parse-error"):
            R["reason"] = "cbmc gave no verdict (rc=%s): %s %s" % (rc, "; ".join(pr["messages"])[:300], err[-300:])
            say(R["reason"])
            break
        for k in ("vars", "clauses", "steps"):
            R[k] = max(R[k], pr[k])
        R["solver_s"] += pr["solver_s"]
        R["symex_s"] += pr["symex_s"]
        wprops = [p for p in pr["props"] if p["desc"].startswith("witness:")]
        oprops = [p for p in pr["props"] if not p["desc"].startswith("witness:")]
        fails = [p for p in oprops if p["status"] == "FAILURE"]
        R["obligations"] = len(oprops)
        R["proved"] = len([p for p in oprops if p["status"] == "SUCCESS"])
        R["witness"] = dict((p["desc"][8:], p["status"] == "FAILURE") for p in wprops)
        infra = [p for p in fails if INFRA_PAT.search(p["desc"])]
        real = [p for p in fails if not INFRA_PAT.search(p["desc"])]
        hint_fail = [p for p in infra if "hint-incomplete" in p["desc"]]
        other_infra = [p for p in infra if "hint-incomplete" not in p["desc"]]
        if not fails:
            final = "proved"
            break
        if other_infra and not real:
            R["reason"] = "bound too small / model not applicable: " + "; ".join(sorted(set(p["desc"] for p in other_infra)))[:300]
            say(R["reason"])
            break
        if real:
            # confirm by native replay
            confirmed = False
            for p in real[:4]:
                hexs = scen_from_trace(p["trace"] or [], layout)
                if hexs is None:
                    continue
                a = get_asan()
                if a is None:
                    break
                rp = replay_native(a, hexs, workdir, "cex_%s_%d" % (job.name, it))
                if rp["failed"] or rp["sanitizer"]:
                    confirmed = True
                    R["failed"] = sorted(set(q["desc"] for q in real))
                    R["replay"] = {"scen_hex": hexs, "obligation": p["desc"], "native_failed": rp["failed"],
                                   "sanitizer": rp["sanitizer"], "where": "%s:%s %s" % (p["file"], p["line"], p["func"])}
                    break
                else:
                    R["unconfirmed"].append({"obligation": p["desc"], "scen_hex": hexs, "native_result": rp["result"],
                                             "where": "%s:%s %s" % (p["file"], p["line"], p["func"])})
            if confirmed:
                final = "violated"
                break
            if not hint_fail:
                R["reason"] = "counterexample not reproducible natively (encoding or stub suspect): " + real[0]["desc"]
                R["failed"] = sorted(set(q["desc"] for q in real))
                say(R["reason"])
                break
        if hint_fail:
            if it == job.max_refine:
                R["reason"] = "hint refinement limit reached"
                break
            added = 0
            for p in hint_fail:
                hexs = scen_from_trace(p["trace"] or [], layout)
                if hexs is None:
                    continue
                rp = replay_native(nat, hexs, workdir, "hint_%s_%d" % (job.name, it))
                for t in rp["traj"]:
                    st = hints.setdefault((t[0], t[1]), set())
                    if tuple(t[2:]) not in st:
                        st.add(tuple(t[2:]))
                        added += 1
                # the neighbourhood of the counterexample usually holds the sibling trajectories as well
                hp = os.path.join(workdir, "hint_%s_%d.hex" % (job.name, it))
                rc2, out2, err2, dt2, to2 = run_to([nat, "--mutate", hp, "30000", str(seed + it + 7)], 120)
                if rc2 == 0:
                    h2 = parse_sample_output(out2)[0]
                    for key, vals in h2.items():
                        st = hints.setdefault(key, set())
                        for v in vals:
                            if v not in st:
                                st.add(v)
                                added += 1
            R["refinements"] += 1
            say("hint refinement %d: +%d pairs" % (R["refinements"], added))
            if added == 0:
                R["reason"] = "hint-incomplete but native replay adds no state (assumption mismatch?)"
                break
            continue
    if final:
        R["status"] = final
    if job.hinted:
        R["hint_pairs"] = sum(len(v) for v in hints.values())
        R["hint_steps"] = len(hints)
    # vacuity: the witness goals are asserted (negated) in the same run and must have come back FAILED (= reachable);
    # jobs on the external (non-incremental) solver run them as a separate -DWITNESS_MODE twin instead
    if final == "proved" and job.witness and job.solver == "kissat":
        cmd = cbmc_cmd(job, hints_path, witness=True)
        rc, out, err, dt, to = run_to(cmd, job.timeout, mem_gb=job.mem_gb, cwd=workdir)
        R["cbmc_runs"] += 1
        R["cbmc_wall_s"] += dt
        prw = parse_cbmc(out) if not to else {"props": [], "status": None, "messages": []}
        if to or prw["status"] in (None, "parse-error"):
            R["status"] = "inconclusive"
            R["reason"] = "witness twin gave no verdict (timeout=%s rc=%s)" % (to, rc)
        R["witness"] = dict((p["desc"][8:], p["status"] == "FAILURE") for p in prw["props"] if p["desc"].startswith("witness:"))
    if final == "proved" and job.witness and R["status"] != "inconclusive":
        ws = R.get("witness") or {}
        missing = [k for k in job.required_witness if not ws.get(k)]
        if missing:
            R["status"] = "inconclusive"
            R["reason"] = "vacuity: witness not reachable: " + ",".join(missing)
    if final == "proved" and R["status"] == "proved":
        try:
            R["functions"] = list_functions(job, workdir, hints_path)
        except Exception:
            pass
    if R["status"] == "inconclusive" and R["native_fail"]:
        # the real code violates the monitor on a sampled instance: a genuine counterexample even though
        # the solver did not deliver the verdict
        a = get_asan()
        if a:
            rp = replay_native(a, R["native_fail"]["scen"], workdir, "nat_%s" % job.name)
            if rp["failed"] or rp["sanitizer"]:
                R["status"] = "violated"
                R["failed"] = rp["failed"] or [rp["sanitizer"]]
                R["replay"] = {"scen_hex": R["native_fail"]["scen"], "obligation": (rp["failed"] or [rp["sanitizer"]])[0],
                               "native_failed": rp["failed"], "sanitizer": rp["sanitizer"], "where": "found by native pre-sampling"}
    R["wall_s"] = round(time.time() - t0, 2)
    return R


def run_jobs(jobs, prop, seed=0, par=None, log=None):
    par = par or max(1, min(14, (os.cpu_count() or 4) - 2))
    work = tempfile.mkdtemp(prefix="catverif_%s_" % prop)
    results = []
    try:
        with ThreadPoolExecutor(max_workers=par) as ex:
            futs = {ex.submit(run_job, j, os.path.join(work, j.name), prop, seed, log): j for j in jobs}
            for f in as_completed(futs):
                j = futs[f]
                try:
                    r = f.result()
                except Exception as e:  # pragma: no cover
                    r = {"job": j.name, "status": "inconclusive", "reason": "runner exception: %r" % (e,), "failed": [], "replay": None}
                results.append(r)
                if log:
                    log("[%s] %s %s (%.1fs)" % (j.name, r["status"], r.get("reason", "")[:160], r.get("wall_s", 0)))
    finally:
        shutil.rmtree(work, ignore_errors=True)
    order = {j.name: i for i, j in enumerate(jobs)}
    results.sort(key=lambda r: order.get(r["job"], 0))
    return results
