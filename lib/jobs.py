"""
jobs.py - which CBMC jobs decide which property, per tier (DESIGN.md section 5).
"""
from vlib import Job

COMMON_ASSUME = [
    "cbmc's C semantics, its built-in models of memcpy/memset/strlen/strcmp/strcpy, and the SAT back end are trusted",
    "snprintf is replaced by a witness-style model of the six format strings cat.c uses (validated against libc by job k_snprintf); strncpy by a 10-line standard-semantics model",
    "user callbacks obey cat.h: io->read returns 0/1 and leaves *ch alone on 0; handlers do not call back into the API unless the scenario says so",
]

META = {}


def P(prop, **kw):
    kw.setdefault("level", "model_checking")
    kw.setdefault("assumptions", [])
    kw["assumptions"] = kw["assumptions"] + COMMON_ASSUME
    META[prop] = kw


def with_prop(prop, jobs):
    for j in jobs:
        j.defines["PROP_" + prop] = None
    return jobs


# ------------------------------------------------------------------------------------------------
# C04

P("C04",
  explanation="E1 kernel harness k_num.c: the real parse_write_args -> parse_int/uint_decimal / parse_num_hexadecimal -> validate_*_range "
              "sequence is executed symbolically on an argument text of symbolic length and content (every byte value except NUL and comma), "
              "symbolic access mode, previous contents, need_all_vars flag, variable-callback result and first/second argument position; "
              "accept/reject, stored value, write_size and untouched neighbours are compared with a reference that decides by significant-digit "
              "count (cannot wrap).",
  bounds={"quick": "text length 0..12, data_size symbolic in {1,2,3,4}, all three numeric types, argument position 1 of 1 and 1 of 2",
          "thorough": "text length 0..24 (beyond 2^64: 20 decimal / 17 hex digits), data_size 1,2,4 and unsupported 3 as separate jobs, all three numeric types"},
  outside="texts longer than 24 characters; data_size > 4 other than the unsupported-size representative 3; later argument positions than the 2nd",
  assumptions=["the argument text reaches parse_write_args exactly as typed (decided separately by C06)"])


def c04(tier):
    jobs = []
    if tier == "quick":
        for vt in (0, 1, 2):
            jobs.append(Job("k_num.vt%d.len12" % vt, "k_num.c", {"VT": vt, "LEN": 12, "DS": 0}, unwind=18, solver="kissat", timeout=900, samples=20000))
        # the 2^64 wrap region needs >= 20 digits: one narrow deep job per type
        for vt in (1, 2):
            jobs.append(Job("k_num.vt%d.ds1.len24" % vt, "k_num.c", {"VT": vt, "LEN": 24, "DS": 1}, unwind=30, solver="kissat", timeout=900, samples=20000))
    else:
        for vt in (0, 1, 2):
            for ds in (1, 2, 4, 3):
                jobs.append(Job("k_num.vt%d.ds%d.len24" % (vt, ds), "k_num.c", {"VT": vt, "LEN": 24, "DS": ds}, unwind=30, solver="kissat", timeout=3000, samples=50000))
    return with_prop("C04", jobs)


REGISTRY = {"C04": c04}


def jobs_for(prop, tier):
    f = REGISTRY.get(prop)
    return f(tier) if f else []
