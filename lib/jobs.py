"""
jobs.py - which CBMC jobs decide which property, per tier (DESIGN.md section 5).
"""
from vlib import Job

COMMON_ASSUME = [
    "cbmc's C semantics, its built-in models of memcpy/memset/strlen/strcmp/strcpy, and the SAT back end are trusted",
    "snprintf is replaced by a witness-style model of the six format strings cat.c uses (validated against libc by job k_snprintf); strncpy by a 10-line standard-semantics model",
    "user callbacks obey cat.h: io->read returns 0/1 and leaves *ch alone on 0; handlers do not call back into the API unless the scenario says so",
]

META = {}


def P(prop, **kw):
    kw.setdefault("level", "model_checking")
    kw.setdefault("assumptions", [])
    kw["assumptions"] = kw["assumptions"] + COMMON_ASSUME
    META[prop] = kw


def uws(cap, strl=8, nvars=2, groups=2, m=3, extra=None):
    """per-loop unwinding bounds for cat.c loops whose exit condition is symbolic; a bound that is too small fails an
    unwinding assertion (job inconclusive), it never truncates silently"""
    u = {"strncpy.0": cap + 1, "strlen.0": strl + 2, "strcpy.0": 10, "memcpy.0": max(cap + 1, 12),
         "parse_int_decimal.0": cap + 1, "parse_uint_decimal.0": cap + 1, "parse_num_hexadecimal.0": cap + 1,
         "parse_buffer_hexadecimal.0": cap + 1, "parse_buffer_string.0": cap + 1,
         "format_buffer_hexadecimal.0": 10, "format_buffer_string.0": 10,
         "verif_emit.0": 66, "verif_snprintf.0": 14, "verif_snprintf.1": 66, "verif_snprintf.2": 18, "verif_fmt_dec.0": 12, "verif_fmt_dec.1": 12, "verif_fmt_hex.0": 10, "verif_fmt_hex.1": 12,
         "is_variables_access_possible.0": nvars + 1, "get_command_by_index.0": groups + 1, "is_command_disable.0": groups + 1,
         "cat_init.0": m + 1, "cat_init.1": groups + 1, "cat_is_unsolicited_event_buffered.0": 10,
         "cat_search_command_by_name.0": m + 1}
    if extra:
        u.update(extra)
    return u


def with_prop(prop, jobs):
    for j in jobs:
        j.defines["PROP_" + prop] = None
    return jobs


# ------------------------------------------------------------------------------------------------
# C04

P("C04",
  explanation="E1 kernel harness k_num.c: the real parse_write_args -> parse_int/uint_decimal / parse_num_hexadecimal -> validate_*_range "
              "sequence is executed symbolically on an argument text of symbolic length and content (every byte value except NUL and comma), "
              "symbolic access mode, previous contents, need_all_vars flag, variable-callback result and first/second argument position; "
              "accept/reject, stored value, write_size and untouched neighbours are compared with a reference that decides by significant-digit "
              "count (cannot wrap).",
  bounds={"quick": "text length 0..12, data_size symbolic in {1,2,3,4}, all three numeric types, argument position 1 of 1 and 1 of 2",
          "thorough": "text length 0..24 (beyond 2^64: 20 decimal / 17 hex digits), data_size 1,2,4 and unsupported 3 as separate jobs, all three numeric types"},
  outside="texts longer than 24 characters; data_size > 4 other than the unsupported-size representative 3; later argument positions than the 2nd",
  assumptions=["the argument text reaches parse_write_args exactly as typed (decided separately by C06)"])


def c04(tier):
    jobs = []
    if tier == "quick":
        for vt in (0, 1, 2):
            jobs.append(Job("k_num.vt%d.len12" % vt, "k_num.c", {"VT": vt, "LEN": 12, "DS": 0}, unwind=18, solver="kissat", timeout=900, samples=20000))
        # the 2^64 wrap region needs >= 20 digits: one narrow deep job per type
        for vt in (0, 1, 2):
            jobs.append(Job("k_num.vt%d.ds1.len24" % vt, "k_num.c", {"VT": vt, "LEN": 24, "DS": 1}, unwind=30, solver="kissat", timeout=900, samples=20000))
    else:
        for vt in (0, 1, 2):
            for ds in (1, 2, 4, 3):
                jobs.append(Job("k_num.vt%d.ds%d.len24" % (vt, ds), "k_num.c", {"VT": vt, "LEN": 24, "DS": ds}, unwind=30, solver="kissat", timeout=3000, samples=50000))
    return with_prop("C04", jobs)


# ------------------------------------------------------------------------------------------------
# C01

P("C01", explanation="E3 guided run r_line.c", bounds={"quick": "", "thorough": ""}, outside="")


def shape_n(shape, m=3, cap=12, lines=1):
    """step bound for a shaped input (DESIGN.md C15): one call per byte, M extra calls per name character,
    search + dispatch + argument handling, and two flushed units per line, plus slack"""
    n = len(shape) + shape.count("n") * m + shape.count("*") * m
    per_line = m + 8 + (cap + 8) + 15
    return n + per_line * lines + 8


def shape_job(prop, shape, harness="r_line.c", lines=1, cap=(12, 24), extra=None, name=None, m=3, **kw):
    capmax = cap[1]
    if extra and extra.get("SEPARATE_UBUF"):
        capmax = 2 * cap[1]
    n = shape_n(shape, m=m, cap=capmax // 2, lines=lines)
    d = {"SHAPESTR": '"%s"' % shape, "N": n, "CAPB_MIN": cap[0], "CAPB_MAX": cap[1], "M": m}
    if extra:
        d.update(extra)
    tag = name or shape.replace("?", "q").replace("=", "e").replace("*", "s")
    kw.setdefault("timeout", 900)
    kw.setdefault("samples", 100000)
    return Job("%s.%s" % (harness[:-2], tag), harness, d, unwind=max(n, capmax, 26) + 2, unwindset=uws(capmax // 2 + 1, m=m), hinted=True,
               object_bits=12, **kw)


C01_SHAPES_QUICK = [
    # blank / prefix only
    ("L", 1), ("RL", 1), ("AL", 1), ("ATL", 1), ("ATRL", 1),
    # run
    ("ATnL", 1), ("ATnnL", 1), ("ATnnnL", 1),
    # read
    ("ATn?L", 1), ("ATnn?L", 1), ("ATn?RL", 1),
    # write
    ("ATn=L", 1), ("ATnn=L", 1), ("ATn=aL", 1), ("ATnn=aaL", 1), ("ATn=aaaL", 1),
    # test
    ("ATn=?L", 1), ("ATnn=?L", 1),
    # garbage at every stage, drained up to the LF
    ("gxL", 1), ("AgxL", 1), ("ATgxL", 1), ("ATngxL", 1), ("ATn?xL", 1), ("ATn=?xL", 1),
    # two lines
    ("ATLATL", 2), ("gLATnL", 2),
]
C01_SHAPES_THOROUGH_EXTRA = [
    # free bytes (slow: wide hint sets)
    ("***", 2), ("ATn*L", 1), ("AT*nL", 1),
    # CR in every position
    ("RATnL", 1), ("ARTnL", 1), ("ATRnL", 1), ("ATnRL", 1), ("ATn=RaL", 1), ("ATn=aRL", 1), ("ATn?RRL", 1), ("gRxL", 1),
    # longer names / arguments
    ("ATnnn=aL", 1), ("ATnn=aaaaL", 1), ("ATn=aaaaaL", 1), ("ATnn?xxL", 1),
    # second line after every kind of first line
    ("ATnLATL", 2), ("ATn?LATL", 2), ("ATn=aLATL", 2), ("gxLATL", 2), ("ATn=?LAL", 2),
]


def c01(tier):
    jobs = []
    for shape, lines in (C01_SHAPES_QUICK + (C01_SHAPES_THOROUGH_EXTRA if tier == "thorough" else [])):
        rw = ["end-of-scenario"] + (["a-result-code"] if shape.strip("RL*") else [])
        jobs.append(shape_job("C01", shape, lines=lines, required_witness=rw))
    # over-long argument lists against the smallest legal buffer (command half = 6 bytes)
    for shape in ("ATn=aaaaaL", "ATn=aaaaaaL", "ATn=aaaaaaaL"):
        jobs.append(shape_job("C01", shape, cap=(12, 12), name="cap6." + shape.replace("=", "e"), required_witness=["end-of-scenario", "a-result-code"]))
    return with_prop("C01", jobs)


# ------------------------------------------------------------------------------------------------
# C02 / C09

P("C02", explanation="E3 guided run r_resolve.c", bounds={"quick": "", "thorough": ""}, outside="")
P("C09", explanation="E3 guided run r_resolve.c", bounds={"quick": "", "thorough": ""}, outside="")

RESOLVE_SHAPES_QUICK = ["ATnL", "ATnnL", "ATnnnL", "ATn?L", "ATnn?L", "ATn=L", "ATnn=aL", "ATn=aaL", "ATn=?L", "ATnn=?L", "ATn=?aL"]


def resolve_jobs(prop, tier):
    jobs = []
    # the 2-bit match table for tables of hundreds of commands (kernel level)
    jobs.append(Job("k_lanes.n200", "k_lanes.c", {"NCMDS": 200}, unwind=60, timeout=1200, samples=100000, solver="cadical",
                    required_witness=["end-of-scenario", "high-index-full-match", "indices-in-different-groups"]))
    if tier == "thorough":
        jobs.append(Job("k_lanes.n600", "k_lanes.c", {"NCMDS": 600}, unwind=160, timeout=5400, samples=100000, solver="kissat",
                        required_witness=["end-of-scenario", "high-index-full-match"]))
    for shape in RESOLVE_SHAPES_QUICK:
        jobs.append(shape_job(prop, shape, harness="r_resolve.c", extra={"G": 2, "G1_START": 2}, samples=200000))
    # a command half large enough (16 bytes) to hold a READ / TEST answer of a command with a variable: the served request type shows in the output
    for shape in ("ATn?L", "ATn=?L"):
        jobs.append(shape_job(prop, shape, harness="r_resolve.c", cap=(28, 32), extra={"G": 2, "G1_START": 2}, samples=200000, name="cap16." + shape.replace("?", "q").replace("=", "e")))
    if tier == "thorough":
        # five commands (a second byte lane of the match table), names up to 3 characters
        for shape in ("ATnL", "ATnnL", "ATn?L", "ATn=aL", "ATnn=?L"):
            jobs.append(shape_job(prop, shape, harness="r_resolve.c", extra={"G": 2, "G1_START": 3}, samples=400000, m=5, name="m5." + shape.replace("?", "q").replace("=", "e"), timeout=2400))
        for shape in ("ATnnnL", "ATnnnnL", "ATnnn=aL"):
            jobs.append(shape_job(prop, shape, harness="r_resolve.c", extra={"G": 2, "G1_START": 2, "K": 3}, samples=400000, name="k3." + shape.replace("?", "q").replace("=", "e"), timeout=2400))
    return with_prop(prop, jobs)


def c02(tier):
    return resolve_jobs("C02", tier)


def c09(tier):
    return resolve_jobs("C09", tier)


# ------------------------------------------------------------------------------------------------
# C06

P("C06", explanation="E3 guided run r_args.c", bounds={"quick": "", "thorough": ""}, outside="")


def c06(tier):
    jobs = []
    lens = (0, 2, 5, 6, 7, 9) if tier == "quick" else (0, 1, 2, 3, 4, 5, 6, 7, 8, 9, 10)
    for n in lens:
        # shared buffer: command half = capb/2 in 6..8
        jobs.append(shape_job("C06", "AT+k=" + "x" * n + "L", harness="r_args.c", cap=(12, 17), name="shared.w%d" % n, samples=200000))
    for n in ((6, 9) if tier == "quick" else (0, 3, 5, 6, 7, 8, 9)):
        # separate event buffer: the whole buffer (6..8 bytes) is the command buffer
        jobs.append(shape_job("C06", "AT+k=" + "x" * n + "L", harness="r_args.c", cap=(6, 8), extra={"SEPARATE_UBUF": 1}, name="separate.w%d" % n, samples=200000))
    jobs.append(shape_job("C06", "AT+k?L", harness="r_args.c", cap=(12, 24), name="shared.read"))
    jobs.append(shape_job("C06", "AT+k?L", harness="r_args.c", cap=(6, 12), extra={"SEPARATE_UBUF": 1}, name="separate.read"))
    # handler arguments of both machines, from any state, shared and separate event buffer of any size (step jobs)
    for sep in (0, 1):
        jobs += step_jobs("C06", tier, pairs=[(14, 0), (15, 0), (0, 3), (0, 4)], seps=(sep,))
    return with_prop("C06", jobs)


# ------------------------------------------------------------------------------------------------
# C10

P("C10", explanation="E3 guided run r_codes.c", bounds={"quick": "", "thorough": ""}, outside="")


def codes_job(kind, nrc, sep, name):
    kinds = ["run", "read", "write", "test"]
    tmax = 6 if kind == 1 else 17 if kind == 3 else 0
    n = 7 + 2 * 2 + 2 + 8 + nrc * (tmax + 14) + 24
    d = {"KIND": kind, "NRC": nrc, "N": n, "SEPARATE_UBUF": 1 if sep else 0}
    if sep:
        d.update({"CAPB_MIN": 18, "CAPB_MAX": 20})
        cap = 20
    else:
        d.update({"CAPB_MIN": 12, "CAPB_MAX": 16})
        cap = 8
    return Job("r_codes.%s.k%d.%s" % (kinds[kind], nrc, name), "r_codes.c", d, unwind=max(n, 30) + 2, unwindset=uws(cap + 1, m=2), hinted=True,
               object_bits=12, samples=200000, timeout=1200)


def c10(tier):
    jobs = []
    k = 3 if tier == "quick" else 5
    for kind in (0, 1, 2, 3):
        jobs.append(codes_job(kind, k if kind in (1, 3) else (k + 1), False, "shared"))
    jobs.append(codes_job(3, k, True, "separate20"))
    jobs.append(codes_job(1, k, True, "separate20"))
    # one row of the table per call from any state: command handler loops and event handler loops (step jobs)
    jobs += step_jobs("C10", tier, pairs=[(13, 0), (14, 0), (15, 0), (16, 0), (0, 3), (0, 4), (14, 4), (16, 3), (13, 6),
                                                 # where formatting (re)starts: COMMAND_FOUND, the after-flush re-format states of both machines, the idle event FSM popping an event
                                                 (6, 0), (22, 0), (23, 0), (0, 9), (0, 10), (0, 0)])
    jobs += [list_job("C10", 20, 22, "m2.cap10to11")]
    return with_prop("C10", jobs)


# ------------------------------------------------------------------------------------------------
# C05

P("C03", explanation="E2 step induction s_step.c", bounds={"quick": "", "thorough": ""}, outside="")
P("C12", explanation="E2 step induction s_step.c", bounds={"quick": "", "thorough": ""}, outside="")
P("C20", explanation="E3 twin run r_twin.c MODE 0 + r_line endings", bounds={"quick": "", "thorough": ""}, outside="")
P("C08", explanation="E2 s_step + E3 twin MODE 2 + kernels", bounds={"quick": "", "thorough": ""}, outside="")
P("C11", explanation="E2 step obligations (s_step.c / s_api.c)", bounds={"quick": "", "thorough": ""}, outside="")
P("C13", explanation="E2 step obligations (s_step.c / s_api.c)", bounds={"quick": "", "thorough": ""}, outside="")
P("C14", explanation="E2 step obligations (s_step.c / s_api.c)", bounds={"quick": "", "thorough": ""}, outside="")
P("C15", explanation="E2 step obligations (s_step.c / s_api.c)", bounds={"quick": "", "thorough": ""}, outside="")
P("C16", explanation="E2 step obligations (s_step.c / s_api.c)", bounds={"quick": "", "thorough": ""}, outside="")
P("C17", explanation="E2 step obligations (s_step.c / s_api.c)", bounds={"quick": "", "thorough": ""}, outside="")
P("C18", explanation="E2 step obligations (s_step.c / s_api.c)", bounds={"quick": "", "thorough": ""}, outside="")
P("C19", explanation="E3 r_list.c + E1 k_test.c", bounds={"quick": "", "thorough": ""}, outside="")
P("C05", explanation="E1 kernel k_buf.c", bounds={"quick": "", "thorough": ""}, outside="")


def big_jobs(with_str=False):
    # large variables: data_size 255..258 (the only kernel above data_size 8), decoded length data_size-1..data_size+1: counters that are
    # too narrow for a big variable wrap inside this bound
    w = ["end-of-scenario", "accepted-at-exact-capacity-above-255", "rejected-one-too-long", "accepted-255"]
    return [Job("k_big.hex.ds258", "k_big.c", {"VT": 3, "DSB": 258}, unwind=2 * 259 + 8, timeout=1800, samples=3000, solver="cadical",
                required_witness=w)] + \
           ([Job("k_big.str.ds258", "k_big.c", {"VT": 4, "DSB": 258}, unwind=259 + 10, timeout=1800, samples=3000, solver="cadical",
                 required_witness=w)] if with_str else [])


def c05(tier):
    ln = 16 if tier == "quick" else 20
    jobs = [Job("k_buf.hex.len%d" % ln, "k_buf.c", {"VT": 3, "LEN": ln}, unwind=ln + 6, timeout=1800, samples=100000),
            Job("k_buf.str.len%d" % ln, "k_buf.c", {"VT": 4, "LEN": ln}, unwind=ln + 6, timeout=1800, samples=100000)]
    if tier != "quick":
        jobs += big_jobs()   # (C05 quantifies over data_size 1..64; the large-variable kernel is C07's quick job and a thorough extra here)
    return with_prop("C05", jobs)


# ------------------------------------------------------------------------------------------------
# C07

P("C07", explanation="E1 round trip k_rt.c", bounds={"quick": "", "thorough": ""}, outside="")


def rt_job(types, sizes, cap, solver="minisat", timeout=1200):
    d = {"NV": len(types), "CAP": cap}
    for i, (t, z) in enumerate(zip(types, sizes)):
        d["T%d" % i] = t
        d["DS%d" % i] = z
    name = "k_rt." + "_".join("t%dz%d" % (t, z) for t, z in zip(types, sizes))
    return Job(name, "k_rt.c", d, unwind=cap + 2, solver=solver, timeout=timeout, samples=50000,
               required_witness=["end-of-scenario", "restore-changed-a-byte"])


def c07(tier):
    jobs = []
    for t in (0, 1, 2):
        for z in (1, 2):
            jobs.append(rt_job([t], [z], 16))
    jobs.append(rt_job([2], [4], 16))
    jobs.append(rt_job([3], [0], 22))
    jobs.append(rt_job([4], [0], 22, solver="kissat"))
    for t in (0, 1, 2):
        jobs.append(rt_job([t, t], [1, 1], 16))
    # 32-bit decimal over the full range (multiply-by-ten kernels: Kissat)
    jobs.append(rt_job([0], [4], 16, solver="kissat", timeout=3000))
    jobs.append(rt_job([1], [4], 16, solver="kissat", timeout=3000))
    # the transport leg of the round trip: a WRITE line's argument bytes (anything but LF, '?' and '=' included) reach the write path unchanged
    for n in ((2, 5) if tier == "quick" else (1, 2, 3, 5, 6)):
        jobs.append(shape_job("C07", "AT+k=" + "x" * n + "L", harness="r_args.c", cap=(12, 17), name="shared.w%d" % n, samples=200000))
    if tier == "thorough":
        for a in range(5):
            for b in range(5):
                if a != b or a >= 3:
                    za = 0 if a >= 3 else 1
                    zb = 0 if b >= 3 else 1
                    jobs.append(rt_job([a, b], [za, zb], 40, solver="kissat", timeout=3000))
    jobs += big_jobs()   # transport leg for large byte buffers (hex text -> variable), data_size 255..258
    return with_prop("C07", jobs)


# ------------------------------------------------------------------------------------------------
# E2 step induction jobs (s_step.c), shared by C03 C08 C11 C12 C13 C14 C15 C18

CSTATES = list(range(-1, 25))
USTATES = list(range(0, 11))


def default_pairs(tier):
    """(command state, event state) pairs: quick = every command state with the event FSM idle, every event state with
    the command FSM idle, and the cross pairs around the two flush states and hold; thorough = the full product"""
    if tier != "quick":
        return [(s, u) for s in CSTATES for u in USTATES]
    pairs = [(s, 0) for s in CSTATES] + [(0, u) for u in USTATES if u != 0]
    # event FSM waiting for the output while the command FSM sits in each input-waiting state (starvation), and the flush / hold crosses
    for p in ((-1, 5), (1, 5), (2, 5), (3, 5), (4, 5), (8, 5), (11, 5), (19, 5), (18, 6), (18, 5), (17, 5), (17, 6), (17, 3), (19, 3), (14, 6), (8, 6)):
        if p not in pairs:
            pairs.append(p)
    return pairs


def step_jobs(prop, tier, checks=False, calls=1, pairs=None, ringcaps=(1,), seps=(0,), capc=None):
    capc = capc or (8 if tier == "quick" else 12)
    jobs = []
    if pairs is None:
        pairs = default_pairs(tier)
    for rc in ringcaps:
        for sep in seps:
            for (s, u) in pairs:
                if s == 19 and u == 6:
                    continue  # excluded by RI (never both flushing): vacuous
                # states that work on "the current variable" are split per variable (one parser / formatter per job)
                vsels = list(range(6)) if s in (9, 10, 12) else [-1]
                uvsels = list(range(6)) if u in (1, 2) else [-1]
                uhrets = [-1, 0, 1, 2, 3, 5, 6, 7, 99] if u in (3, 4) else [None]
                for vs in vsels:
                  for uh in uhrets:
                    for uvs in uvsels:
                        d = {"STATE": s, "USTATE": u, "SEP": sep, "CALLS": calls, "RINGCAP": rc, "CAT_UNSOLICITED_CMD_BUFFER_SIZE": rc, "CAPC_MAX": capc}
                        name = "s_step.s%d.u%d.r%d%s%s" % (s, u, rc, ".sep" if sep else "", ".x2" if calls == 2 else "")
                        if not sep and u in (0, 1, 2, 3, 4, 9, 10):
                            # the event FSM formats into its half: keep that half at a concrete offset (symbolic sizes: SEP=1 jobs)
                            d["BUFSZ"] = 2 * capc
                            name += ".b%d" % (2 * capc)
                        if vs >= 0:
                            d["VSEL"] = vs
                            name += ".v%d" % vs
                        if uvs >= 0:
                            d["UVSEL"] = uvs
                            name += ".w%d" % uvs
                        if uh is not None:
                            d["UHRET"] = "(%d)" % uh
                            name += ".h%s" % str(uh).replace("-", "m")
                        j = Job(name.replace("s-1", "sE"), "s_step.c", d, unwind=2 * capc + 4,
                                unwindset=uws(capc + 1, strl=8, nvars=6, groups=2, m=3), checks=checks, timeout=900, samples=20000,
                                required_witness=["end-of-scenario"])
                        if (checks or prop == "C11") and tier != "quick" and (vs == 4 or uvs == 4):
                            # built-in checks (C03) or the per-byte frame obligations (C03, C11) + a 12-byte string formatter / parser: MiniSat > 900 s, CaDiCaL ~60 s (measured)
                            j.solver, j.timeout = "cadical", 1800
                        jobs.append(j)
    return with_prop(prop, jobs)


# ------------------------------------------------------------------------------------------------
# s_api.c jobs: small API functions (C13 C14 C16 C17 C18)

API_FN = {0: "is_busy", 1: "is_hold", 2: "buffer_full", 3: "trigger_event", 4: "trigger_read", 5: "trigger_test", 6: "hold_exit",
          7: "event_buffered", 8: "get_processed"}


def api_jobs(prop, fns, mutex, havoc, ringcaps):
    jobs = []
    for rc in ringcaps:
        for fn in fns:
            d = {"FN": fn, "MUTEX": mutex, "HAVOC": havoc, "RINGCAP": rc, "CAT_UNSOLICITED_CMD_BUFFER_SIZE": rc}
            name = "s_api.%s.r%d%s%s" % (API_FN[fn], rc, ".mutex" if mutex else "", ".havoc" if havoc else "")
            jobs.append(Job(name, "s_api.c", d, unwind=12, checks=False, timeout=600, samples=50000,
                            required_witness=["end-of-scenario", "lock-obtained"]))
    return with_prop(prop, jobs)


# ------------------------------------------------------------------------------------------------
# twin runs (r_twin.c): C20 fresh vs junk-idle, C12 eager vs scheduled, C08 write-only non-interference


def twin_job(prop, mode, shape, r=2, cap=(12, 24), **kw):
    extra = {"MODE": mode, "R": r}
    if mode == 3:
        extra["L1"] = shape.index("L") + 1      # the first line ends at the first LF class
        kw.setdefault("lines", 2)
    j = shape_job(prop, shape, harness="r_twin.c", cap=cap, extra=extra, name="m%d.%s" % (mode, shape.replace("?", "q").replace("=", "e")), **kw)
    if mode == 1:
        j.defines["N"] = int(j.defines["N"]) + 2 * r + 1   # + the chunk-boundary refusal
        j.unwind = max(j.unwind, int(j.defines["N"]) + 2)
    j.unwind = max(j.unwind, 66)     # the comparison loops run over the output log (<= 64 bytes)
    j.solver = "cadical"             # in-process and incremental: witness goals ride in the same run (measured 150 s vs 345 s with the external solver + twin)
    j.timeout = 2400
    j.samples = 600000               # cheap native runs: fewer hint refinements (each one is a full CBMC run)
    return j


TWIN_SHAPES_QUICK = ["ATL", "ATnL", "ATnn?L", "ATn=aL", "ATn=?L", "gxL", "ATngL"]
TWIN_SHAPES_THOROUGH = TWIN_SHAPES_QUICK + ["ATnn=aaL", "ATnnnL", "ATn=aaaL", "ATnn=?L", "ATn?xL"]


def c20(tier):
    jobs = [twin_job("C20", 0, sh) for sh in (TWIN_SHAPES_QUICK if tier == "quick" else TWIN_SHAPES_THOROUGH)]
    # concatenation: line 2 after line 1 == line 2 alone (first lines chosen to leave the parser through every exit)
    # quick: pinned table, over-long implicit-write first line (the exit that skips the normal end of argument parsing)
    jobs.append(twin_job("C20", 3, "AT+3aaaaaaLAT+kL", cap=(12, 12)))
    jobs[-1].defines["PIN_TABLE"] = 1
    jobs[-1].name += ".pinned"
    # quick: write syntax on a (possibly) test-only command, then another line
    jobs.append(twin_job("C20", 3, "AT+k=aLAT+kL", cap=(12, 12)))
    jobs[-1].defines["PIN_TABLE"] = 2
    jobs[-1].name += ".pinned_testonly"
    m3 = [("gxLAT+k?L", (12, 16))]
    if tier == "thorough":
        m3 += [("AT+kaaaaaaLAT+kL", (12, 12)), ("AT+k=aLAT+k?L", (12, 16)), ("AT+k?LAT+k=aL", (12, 16)), ("AT+kgLAT+kL", (12, 16)), ("AT+k=?xLAT+kL", (12, 16)), ("AT+kaaaaaaaLAT+k=aL", (12, 12))]
    for sh, cap in m3:
        jobs.append(twin_job("C20", 3, sh, cap=cap))
    for shape in ("ATnRL", "ATn?RL", "RATnL", "ARTnL", "ATRnL", "ATn=aRL", "AgRL"):
        jobs.append(shape_job("C20", shape, required_witness=["end-of-scenario", "a-result-code"]))
    # newline style of a multi-line answer: the command list after AT+A<LF> and AT+A<CR><LF>
    # the length a variable write callback is told does not depend on earlier lines (step level: any pre-state, numeric variables, any access mode)
    jobs += [j for j in step_jobs("C20", tier, pairs=[(9, 0)]) if j.defines.get("VSEL") in (0, 1, 2, 5)]
    jl = list_job("C20", 20, 22, "m2.cap10to11")
    jl.required_witness = ["end-of-scenario", "five-lines-listed"]
    jobs.append(jl)
    return with_prop("C20", jobs)


def c12(tier):
    jobs = step_jobs("C12", tier)
    if tier == "quick":
        jobs += [twin_job("C12", 1, sh, r=1) for sh in ("ATnL", "gxL", "ATnRnL")]   # gxL: a malformed line (ERROR state) with a possible CR before the LF
    else:
        # (two refusals of each kind per run were tried: the hint refinement does not converge within the budget - one of each kind plus the byte-boundary refusal)
        jobs += [twin_job("C12", 1, sh, r=1) for sh in ("ATnL", "gxL", "ATnRnL", "ATn?L")]     # (the write shape ATn=aL does not converge either: hint-incomplete whose replay adds no state)
    return with_prop("C12", jobs)


def c08(tier):
    jobs = step_jobs("C08", tier)
    jobs += [twin_job("C08", 2, sh) for sh in ("ATn?L", "ATnn?L", "ATn=?L")]
    for vt in (0, 1, 2):
        jobs.append(Job("k_num.vt%d.len8" % vt, "k_num.c", {"VT": vt, "LEN": 8, "DS": 0}, unwind=14, timeout=600, samples=20000))
    for vt in (3, 4):
        jobs.append(Job("k_buf.vt%d.len10" % vt, "k_buf.c", {"VT": vt, "LEN": 10}, unwind=16, timeout=600, samples=20000))
    # second clause: READ / WRITE refused exactly when nothing is readable / writable and there is no handler
    jobs.append(Job("k_access.nv3", "k_access.c", {"NV": 3}, unwind=34, timeout=300, samples=100000,
                    required_witness=["end-of-scenario", "read-refused", "writable-in-the-middle"]))
    # non-disclosure at kernel level: the READ formatter run twice, only the stored bytes of a write-only variable differ (all five types,
    # every capacity 6..32 - also the ones that are too small)
    # (a read-write uint8 precedes it: a command offering nothing readable is refused as a whole - k_access)
    for t0 in (0, 1, 2, 3, 4):
        jobs.append(Job("k_wo.t%d" % t0, "k_wo.c", {"T0": t0, "LEAD": 1, "CAP": 32}, unwind=36, timeout=900, samples=100000,
                        solver="cadical", required_witness=["end-of-scenario", "answer-produced", "answer-does-not-fit", "contents-differ"]))
    return with_prop("C08", jobs)


def list_job(prop, capmin, capmax, name, m=2, req=0):
    n = 40 + m * 56
    d = {"N": n, "L": 6, "M": m, "CAPB_MIN": capmin, "CAPB_MAX": capmax}
    if req:
        d["REQ"] = req
    return Job("r_list.%s" % name, "r_list.c", d, unwind=max(n, 40 + m * 40) + 2, unwindset=uws(capmax // 2 + 1, m=m), hinted=True, object_bits=12,
               samples=300000, timeout=1500, required_witness=["end-of-scenario"])


def c19(tier):
    jobs = [list_job("C19", 20, 22, "m2.cap10to11"), list_job("C19", 14, 17, "m2.cap7to8")]
    jobs[0].required_witness = ["end-of-scenario", "five-lines-listed", "a-disabled-command-or-group"]
    jobs[1].required_witness = ["end-of-scenario", "line-does-not-fit"]
    # the request comes from the LAST command: the first command / first group may then be disabled
    jr = list_job("C19", 20, 22, "m2.req1.cap10to11", req=1)
    jr.required_witness = ["end-of-scenario", "a-disabled-command-or-group"]
    jobs.append(jr)
    if tier == "thorough":
        j3 = list_job("C19", 20, 22, "m3.cap10to11", m=3)
        j3.solver, j3.timeout = "cadical", 5400      # the largest guided run of the property: ~25 min on an idle machine
        jobs.append(j3)
        jobs.append(list_job("C19", 12, 19, "m3.cap6to9", m=3))
    for nv in ((1, 2) if tier == "quick" else (1, 2, 3)):
        jobs.append(Job("k_test.nv%d" % nv, "k_test.c", {"NV": nv, "CAPMAX": 64}, unwind=100, unwindset={"strlen.0": 42, "strcpy.0": 42, "strncpy.0": 66},
                        timeout=1800, samples=100000, solver="kissat",
                        required_witness=["end-of-scenario", "fits-exactly", "one-byte-short", "unsupported-width", "name-of-20-characters-fits"]))
    return with_prop("C19", jobs)


def events_jobs(prop, tier):
    """r_events.c: one command line + up to two triggers inside a 3-step window starting at T0, one write refusal anywhere"""
    jobs = []
    n = 96
    t0s = (0, 15, 27, 39)
    codes = ((0, "dataok"),)
    for rc in (1,):   # capacity 2 (two events queued behind a command line) runs out of memory: not registered
        for t0 in t0s:
            for code, cname in codes:
                d = {"N": n, "T0": t0, "RINGCAP": rc, "CAT_UNSOLICITED_CMD_BUFFER_SIZE": rc, "EVENT_CODE": "(%d)" % code, "CAPB_MIN": 12, "CAPB_MAX": 16}
                jobs.append(Job("r_events.t%d.r%d.%s" % (t0, rc, cname), "r_events.c", d, unwind=n + 4, unwindset=uws(9, m=3), hinted=True, object_bits=12,
                                samples=400000, timeout=3600, solver="cadical", required_witness=["end-of-scenario", "command-data-and-event-unit"]))
    return with_prop(prop, jobs)


def evq_jobs(prop, tier):
    """r_evq.c: events only - two triggers with concrete (command, kind) at symbolic steps, one write refusal, per queue capacity"""
    jobs = []
    n = 50
    combos = ((0, 1), (2, 0)) if tier == "quick" else tuple((a, b) for a in (0, 1, 2) for b in (0, 1, 2))
    t0s = (2,) if tier == "quick" else (2, 8, 14)
    caps = (1, 2, 3)
    codes = ((0, "dataok"),) if tier == "quick" else ((0, "dataok"), (3, "ok"), (1, "datanext"))
    for rc in caps:
        for (e1, e2) in combos:
            for t0 in t0s:
                for code, cname in codes:
                    if cname == "datanext":
                        continue  # DATA_NEXT never terminates with a constant code: not a finite scenario
                    d = {"N": n, "T0": t0, "E1": e1, "E2": e2, "RINGCAP": rc, "CAT_UNSOLICITED_CMD_BUFFER_SIZE": rc, "EVENT_CODE": "(%d)" % code, "CAPB_MIN": 16, "CAPB_MAX": 16}
                    jobs.append(Job("r_evq.e%d%d.t%d.r%d.%s" % (e1, e2, t0, rc, cname), "r_evq.c", d, unwind=n + 4, unwindset=uws(9, m=3), hinted=True, object_bits=12,
                                    samples=300000, timeout=1500, required_witness=["end-of-scenario", "both-accepted" if rc > 1 else "second-refused"]))
    return with_prop(prop, jobs)


def c15(tier):
    # safety half: OK means quiescent (two consecutive calls), for every ring capacity; liveness half: r_line's step bound
    jobs = []
    for rc in ((1, 2) if tier == "quick" else (1, 2, 3, 8)):
        if rc == 1:
            pairs = default_pairs("quick")
            if tier != "quick":
                # thorough: every command state against the event FSM idle / waiting for the output / flushing (the two-call jobs
                # cost twice a one-call job; the full 26 x 11 product with one call is C03's / C11's thorough tier)
                pairs = pairs + [(s, u) for s in CSTATES for u in (5, 6) if (s, u) not in pairs]
        else:
            pairs = [(0, u) for u in USTATES] + [(8, 0), (19, 0), (17, 0), (4, 0)]
        jobs += step_jobs("C15", tier, calls=2, pairs=pairs, ringcaps=(rc,))
    for j in jobs:
        j.defines["CB_TRIGGER"] = 1      # the application may trigger an event from inside io->read or a handler of the first call
    for shape, lines in (("ATnL", 1), ("ATn?L", 1), ("ATn=aL", 1), ("ATLATL", 2), ("gxL", 1)):
        jobs.append(shape_job("C15", shape, lines=lines))
    # events only, black box: two triggers + a write refusal end in OK with nothing left behind
    jobs += evq_jobs("C15", "quick")
    return with_prop("C15", jobs)


def c18(tier):
    jobs = step_jobs("C18", tier)
    jobs += api_jobs("C18", (0, 1), 0, 0, (1,))
    shapes = [("ATnL", 1), ("ATn?L", 1), ("ATn=aL", 1), ("ATLATL", 2), ("gxL", 1), ("ATngxL", 1)]
    if tier == "thorough":
        shapes += [("***", 2), ("ATn=?xL", 1), ("AgxL", 1)]
    for shape, lines in shapes:
        jobs.append(shape_job("C18", shape, lines=lines))
    # cat_is_hold along a held run handler with release / spurious releases (black box)
    jobs.append(hold_job(0, 26))
    # cat_is_busy along event-only runs (black box)
    jobs += evq_jobs("C18", "quick")
    return with_prop("C18", jobs)


def c11(tier):
    jobs = step_jobs("C11", tier) + evq_jobs("C11", tier)
    if tier != "quick":
        # one command line AND two events in flight (both machines active), ~15 min per job
        jobs += events_jobs("C11", tier)
    return with_prop("C11", jobs)


def c13(tier):
    jobs = []
    for rc in ((1, 2, 3) if tier == "quick" else (1, 2, 3, 8)):
        pairs = [(0, u) for u in USTATES] + [(19, 0), (17, 0), (8, 0)]
        jobs += step_jobs("C13", tier, pairs=pairs, ringcaps=(rc,))
    jobs += api_jobs("C13", (2, 3, 4, 5, 7, 8), 0, 0, (1, 2, 3) if tier == "quick" else (1, 2, 3, 8))
    jobs += evq_jobs("C13", tier)
    return with_prop("C13", jobs)


def hold_job(kind, t0):
    kinds = ["run", "read", "write", "test"]
    n = t0 + 55
    d = {"KIND": kind, "T0": t0, "N": n}
    return Job("r_hold.%s.t%d" % (kinds[kind], t0), "r_hold.c", d, unwind=n + 4, unwindset=uws(9, m=3), hinted=True, object_bits=12,
               samples=200000, timeout=1500, required_witness=["end-of-scenario", "released-with-error", "two-releases-different-status"])


def c14(tier):
    pairs = [(17, u) for u in USTATES] + [(13, 0), (14, 0), (15, 0), (16, 0), (0, 3), (0, 4)]
    jobs = step_jobs("C14", tier, pairs=pairs)
    # the same with a separate event buffer of any (also too small) size: an event that cannot be formatted must not answer for the held command
    jobs += step_jobs("C14", tier, pairs=[(17, u) for u in USTATES], seps=(1,))
    jobs += api_jobs("C14", (6,), 0, 0, (1,))
    # line-level, black box: all four handler kinds entering hold, release window right after the hold begins (quick)
    # and later windows (thorough); spurious / repeated releases, second line waiting
    for kind in (0, 1, 2, 3):
        for t0 in ((26,) if tier == "quick" else (26, 29, 32, 40, 55)):
            jobs.append(hold_job(kind, t0))
    return with_prop("C14", jobs)


def c16(tier):
    jobs = api_jobs("C16", (0, 1, 2, 3, 4, 5, 6), 1, 0, (1, 2) if tier == "quick" else (1, 2, 3, 8))
    sj = step_jobs("C16", tier)
    for j in sj:
        j.defines["MUTEX"] = 1
        j.name += ".mutex"
    return with_prop("C16", jobs + sj)


def c17(tier):
    jobs = api_jobs("C17", (0, 1, 2, 3, 4, 5, 6), 1, 1, (1, 2) if tier == "quick" else (1, 2, 3, 8))
    sj = step_jobs("C17", tier)
    for j in sj:
        j.defines["MUTEX"] = 1
        j.name += ".mutex"
    return with_prop("C17", jobs + sj)


def c03(tier):
    jobs = step_jobs("C03", tier, checks=True)
    # the match table of a big command table in a working buffer of the minimal legal size (built-in checks + canary bytes behind it)
    jobs.append(Job("k_lanes.n200.min", "k_lanes.c", {"NCMDS": 200}, unwind=60, checks=True, timeout=1200, samples=100000, solver="cadical",
                    required_witness=["end-of-scenario", "high-index-full-match"]))
    if tier != "quick":
        jobs.append(Job("k_lanes.n24.min", "k_lanes.c", {"NCMDS": 24}, unwind=30, checks=True, timeout=900, samples=100000, solver="cadical",
                        required_witness=["end-of-scenario"]))
    return with_prop("C03", jobs)


REGISTRY = {"C04": c04, "C01": c01, "C02": c02, "C09": c09, "C06": c06, "C10": c10, "C05": c05, "C07": c07,
            "C03": lambda tier: c03(tier),
            "C12": c12, "C20": c20, "C08": c08,
            "C19": lambda tier: c19(tier), "C15": lambda tier: c15(tier), "C18": lambda tier: c18(tier), "C11": lambda tier: c11(tier),
            "C13": lambda tier: c13(tier), "C14": lambda tier: c14(tier), "C16": lambda tier: c16(tier), "C17": lambda tier: c17(tier),
            }


def jobs_for(prop, tier):
    f = REGISTRY.get(prop)
    return f(tier) if f else []


# detailed per-property texts (what is decided, bounds, outside, trusted base)
try:
    from meta import META2
    for _pid, _m in META2.items():
        base = META.get(_pid, {"level": "model_checking", "assumptions": list(COMMON_ASSUME)})
        merged = dict(base)
        for _k, _v in _m.items():
            if _k == "assumptions":
                merged["assumptions"] = list(_v) + list(COMMON_ASSUME)
            else:
                merged[_k] = _v
        META[_pid] = merged
except ImportError:  # pragma: no cover
    pass
