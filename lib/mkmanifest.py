#!/usr/bin/env python3
"""mkmanifest.py - regenerate /verif/MANIFEST.json from lib/jobs.py (REGISTRY + META)."""
import json, os, sys

HERE = os.path.dirname(os.path.abspath(__file__))
sys.path.insert(0, HERE)
import jobs

VERIF = os.path.dirname(HERE)
props = [json.loads(l) for l in open(os.path.join(VERIF, "properties.jsonl"))]

BASELINE_OFF = ("d=$(mktemp -d /tmp/cat_baseline_off.XXXXXX) && cmake -G Ninja -B $d /repo >/dev/null && cmake --build $d >/dev/null && "
                "ctest --test-dir $d -j8 --timeout 900; rc=$?; rm -rf $d; exit $rc")

m = {
    "version": 1,
    "setup_cmd": "./setup.sh",
    "hooks": {
        "guard": "CAT_VERIF",
        "enable": "no source hook is needed or present: every harness includes /repo/src/cat.c textually (static functions and the object layout "
                  "are visible that way) and is rebuilt from the working tree on every run; the guard name is reserved and unused",
        "baseline_off_cmd": BASELINE_OFF,
        "source_commits": [],
        "add_only": True,
    },
    "engines": [
        {"name": "E1 kernel harnesses", "path": "harness/k_*.c", "serves_properties": ["C03", "C04", "C05", "C07", "C08", "C19"],
         "kind_free_text": "CBMC on the real static parse/format functions of cat.c with symbolic texts/values and an independent reference model"},
        {"name": "E2 step induction", "path": "harness/s_step.c harness/s_api.c", "serves_properties": ["C03", "C08", "C11", "C12", "C13", "C14", "C15", "C16", "C17", "C18"],
         "kind_free_text": "CBMC: one API call from any object state satisfying the representation invariant, arbitrary environment, one job per (command state, event state)"},
        {"name": "E3 guided runs", "path": "harness/r_*.c harness/world.h", "serves_properties": ["C01", "C02", "C06", "C08", "C09", "C10", "C12", "C15", "C18", "C19", "C20"],
         "kind_free_text": "CBMC: N calls of cat_service through the public API on shaped symbolic input with symbolic command table; per-step control hints from native traces, whose completeness is itself a proof obligation"},
    ],
    "checks": [],
    "not_applicable": [],
    "notes": "Every check is `./check <id> --tier quick|thorough`; exit 0 = every CBMC job proved (bounded), exit 1 = a solver counterexample reproduced natively against the real cat.c (VIOLATION line with replay file), exit 2 = inconclusive (never printed as a violation). See DESIGN.md.",
}

for p in props:
    pid = p["id"]
    meta = jobs.META.get(pid)
    if pid not in jobs.REGISTRY or meta is None or meta.get("not_applicable"):
        m["not_applicable"].append({"property_id": pid, "reason": (meta or {}).get("not_applicable", "no check built")})
        continue
    m["checks"].append({
        "property_id": pid,
        "quick_cmd": "./check %s --tier quick" % pid,
        "thorough_cmd": "./check %s --tier thorough" % pid,
        "evidence_file": "/verif/evidence/%s.json" % pid,
        "replay_cmd_template": "./check %s --replay {path}" % pid,
        "engine": meta.get("engine", ""),
        "level_claimed": {"category": meta.get("level", "model_checking"), "text": meta.get("level_text", meta.get("explanation", "")), "design_ref": meta.get("design_ref", "DESIGN.md section 5, " + pid)},
        "level_note": meta.get("level_note", "; ".join(meta.get("assumptions", []))),
        "technique": meta.get("technique", "bounded symbolic execution of the real cat.c with CBMC (SAT), counterexamples replayed natively"),
    })

json.dump(m, open(os.path.join(VERIF, "MANIFEST.json"), "w"), indent=1)
print("checks:", len(m["checks"]), "not_applicable:", len(m["not_applicable"]))
