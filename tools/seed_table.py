#!/usr/bin/env python3
"""seed_table.py - markdown table of the seeded changes and the jobs that catch them (from seeded/*/meta.json)"""
import json, os, glob
VERIF = os.path.dirname(os.path.dirname(os.path.abspath(__file__)))
print("| seed | property | the change | needs ... to manifest | caught by (first jobs) |")
print("|------|----------|------------|-----------------------|------------------------|")
for f in sorted(glob.glob(os.path.join(VERIF, "seeded", "*", "meta.json"))):
    m = json.load(open(f))
    name = os.path.basename(os.path.dirname(f))
    det = ", ".join("`%s`" % j for j in m.get("detecting_jobs", [])[:3]) if m.get("detected") else "**not caught** (exit %s)" % m.get("check_exit_code")
    print("| %s | %s | %s | %s | %s |" % (name, m["breaks_property"], m["change"], m["needs_to_manifest"], det))
