#!/bin/sh
# seed_confirm.sh <prop-id> <dir-with-patch.diff-and-demo.c> [extra gcc flags for the demo]
# Confirms a seeded change independently: applies it to a scratch worktree of /repo HEAD, builds with the project
# flags, runs the 30 tests, builds and runs the demonstration with and without the change. Prints a JSON line.
id=$1; src=$2; shift 2; extra="$*"
wt=/tmp/seedchk_$id
rm -rf $wt; git -C /repo worktree prune
git -C /repo worktree add --detach $wt HEAD >/dev/null 2>&1 || { echo "{\"id\":\"$id\",\"error\":\"worktree\"}"; exit 1; }
cd $wt
mkdir -p _demo && cp $src/demo.c _demo/
( cd _demo && gcc -w $extra -I../src demo.c ../src/cat.c -o demo_clean >/dev/null 2>&1 ); ./_demo/demo_clean >/dev/null 2>&1; clean_rc=$?
git apply $src/patch.diff || { echo "{\"id\":\"$id\",\"error\":\"patch does not apply\"}"; cd /; git -C /repo worktree remove --force $wt; exit 1; }
cmake -G Ninja -B $wt/_b $wt >/dev/null 2>&1 && cmake --build $wt/_b >/dev/null 2>$wt/build.err; build_rc=$?
tests=$(ctest --test-dir $wt/_b -j8 2>/dev/null | grep "tests passed" | sed 's/ *$//')
( cd _demo && gcc -w $extra -I../src demo.c ../src/cat.c -o demo_mut >/dev/null 2>&1 ); ./_demo/demo_mut >/dev/null 2>&1; mut_rc=$?
echo "{\"id\":\"$id\",\"build_rc\":$build_rc,\"tests\":\"$tests\",\"demo_clean_rc\":$clean_rc,\"demo_mutant_rc\":$mut_rc}"
cd /; git -C /repo worktree remove --force $wt
