#!/usr/bin/env python3
"""cost_table.py - markdown cost table (DESIGN.md 9.5) from the evidence files written by the last ./check runs"""
import json, os, glob
VERIF = os.path.dirname(os.path.dirname(os.path.abspath(__file__)))
print("| id | tier | jobs | wall | slowest job | CBMC obligations decided | solver seconds (sum) | native instances |")
print("|----|------|------|------|-------------|--------------------------|----------------------|------------------|")
tot = 0.0
for f in sorted(glob.glob(os.path.join(VERIF, "evidence", "C*.json"))):
    e = json.load(open(f))
    c = e["coverage"]
    jobs = c.get("jobs", [])
    slow = max(jobs, key=lambda j: j.get("cbmc_wall_s", 0.0)) if jobs else None
    tot += e.get("wall_s", 0.0)
    print("| %s | %s | %d | %.0f s | %s | %d | %.0f s | %d |" % (
        e["property_id"], e["tier"], len(jobs), e.get("wall_s", 0.0),
        ("`%s` (%.0f s)" % (slow["job"], slow.get("cbmc_wall_s", 0.0))) if slow else "-",
        c.get("evaluations", 0), c.get("solver_seconds", 0.0), c.get("traces_validated_against_impl", 0)))
print("\nsum of the wall times: %.0f min" % (tot / 60.0))
