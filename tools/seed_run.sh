#!/bin/sh
# seed_run.sh <seed-name> <patch.diff> <prop-id> [extra ./check args]
# Runs a check against a seeded change without touching /repo: scratch worktree of /repo HEAD + patch, pointed to by
# VERIF_REPO (equivalent to `git -C /repo apply` + check + `git -C /repo checkout -- .`, but safe while other checks run).
name=$1; patch=$2; prop=$3; shift 3
wt=/tmp/seedrun_$name
rm -rf $wt; git -C /repo worktree prune
git -C /repo worktree add --detach $wt HEAD >/dev/null 2>&1 || exit 9
( cd $wt && git apply $patch ) || { echo "patch does not apply"; git -C /repo worktree remove --force $wt; exit 9; }
cd /verif
VERIF_REPO=$wt VERIF_REPLAYS=/tmp/seedrun_${name}_replays ./check $prop --tier quick --no-evidence "$@" > /tmp/seedrun_$name.log 2>&1
rc=$?
git -C /repo worktree remove --force $wt
grep -E "^VIOLATION|^SUMMARY|^KNOWN|^INCONCLUSIVE" /tmp/seedrun_$name.log | head -8
echo "seed=$name prop=$prop exit=$rc"
exit $rc
