#!/usr/bin/env python3
"""seed_meta.py - write seeded/<id>/meta.json from the confirmation / check logs under a log directory.
usage: tools/seed_meta.py <logdir>   (expects <logdir>/seed_<id>.out written by tools/seed_run.sh)"""
import json, os, re, sys

VERIF = os.path.dirname(os.path.dirname(os.path.abspath(__file__)))
logdir = sys.argv[1] if len(sys.argv) > 1 else "/tmp/w"

DESC = {
    "C01": ("search_command: the 'several partial matches' exit goes to COMMAND_NOT_FOUND unconditionally (re-introduces the fixed defect through a different edit)",
            "an ambiguous abbreviation in WRITE form (name + '=') on a table whose last command is not one of the partial matches"),
    "C02": ("to_upper: range test written as (unsigned char)(ch-'a') < 'z'-'a' (excludes 'z')", "a lower-case 'z' in the typed name or in a registered name"),
    "C03": ("parse_buffer_string escape branch: capacity guard size >= data_size became size > data_size (one byte written past the variable)",
            "a string WRITE with exactly data_size stored characters followed by an escape sequence"),
    "C04": ("parse_uint_decimal: the two-clause 64-bit overflow guard merged into one (val >= MAX/10 && digit > MAX%10)", "an unsigned decimal of >= 20 digits >= 2^64+4 whose wrapped value fits the variable"),
    "C05": ("parse_buffer_string escape branch: size >= data_size became size > data_size", "decoded length reaches data_size+1 through an escape exactly at index data_size"),
    "C06": ("parse_command_args: the else { state = ERROR } after storing an argument byte dropped", "an argument string of exactly buffer-capacity bytes (accepted, handler sees an unterminated buffer)"),
    "C07": ("parse_buffer_string escape branch: capacity check became size + 2 >= data_size", "a string of exactly data_size-1 characters whose last character needs an escape (READ output is rejected by WRITE)"),
    "C08": ("parse_buffer_string escape branch stores the decoded character without testing READ_ONLY", "a WRITE to a read-only string variable whose text contains an escape sequence"),
    "C09": ("is_command_disable: group lookup loop 'simplified' (index > j), first command of every later group is judged by the previous group's flag",
            "two groups, the second disabled: its first command still matches, runs and makes abbreviations ambiguous"),
    "C10": ("parse_write_args: the return after ack_error for a failing variable write callback dropped (falls through to the write handler / OK)",
            "a variable write callback failing on the LAST supplied argument"),
    "C11": ("start_flush_io_buffer_raw enters FLUSH_IO_WRITE directly, skipping the WAIT state that arbitrates with the event FSM", "a command-list line starting while an unsolicited line is being written"),
    "C12": ("process_io_write / unsolicited_process_io_write: state advanced to write_state_after before io->write is known to have accepted the last byte", "io->write refusing exactly the last byte of a unit's trailing newline"),
    "C13": ("cat_is_unsolicited_event_buffered: scan starts at (tail - count) % SIZE instead of head (wrong when 2^64 is not divisible by SIZE)", "queue capacity 3 with wrapped ring indices and a non-full queue"),
    "C14": ("hold_exit records the status even outside a hold; enable_hold_state no longer clears it", "a release request made BEFORE a hold: the next hold ends by itself"),
    "C15": ("unsolicited_process_io_write_wait: event FSM keeps waiting while the command FSM is in a name-parsing state", "a queued event while an unterminated partial line is pending and no more input arrives: livelock (BUSY forever)"),
    "C16": ("process_test_loop HOLD_EXIT_ERROR calls the public cat_hold_exit() (takes the mutex again) instead of the internal helper", "mutex configured and a test handler returning HOLD_EXIT_ERROR: nested lock, double unlock"),
    "C17": ("queue-full test moved out of push_unsolicited_cmd to before mutex->lock() in cat_trigger_unsolicited_event", "two producers racing for the last free slot (needs a real mutex and an interleaving)"),
    "C18": ("is_busy: '!= IDLE' tests became '> IDLE' (CAT_STATE_ERROR = -1 counts as idle)", "a malformed line cut before its LF: cat_is_busy = OK while the line is half consumed and ERROR is owed"),
    "C19": ("print_response_test: newline + description appended with one snprintf and fit check written > instead of >=", "command buffer exactly one byte short of the '=?' text with a description: truncated line + OK instead of ERROR"),
    "C20": ("implicit_write_flag cleared at the LF of parse_command_args instead of where it is consumed", "an over-long implicit-write line (ERROR path never reaches that LF): every later line is treated as implicit write"),
    # ---- round 2 (each agent was told what round 1 had already tried, to get a different mechanism) ----
    "C01_r2": ("parse_command_args: argument overflow answers ERROR at once (ack_error) instead of draining the line in CAT_STATE_ERROR", "a write line whose arguments reach the buffer capacity: ERROR mid-line, the rest is parsed as a new command"),
    "C02_r2": ("set_cmd_state: byte index / lane derived from a bit offset truncated to 8 bits (wrong lane for command index >= 128)", "a table with more than 128 commands"),
    "C06_r2": ("call_cmd_read_by_fsm: max_data_size hoisted into one local (the command buffer's capacity) and passed to unsolicited read handlers too", "separate unsolicited buffer of a different size + an unsolicited READ with a read handler"),
    "C09_r2": ("get_cmd_state no longer hides disabled commands (check moved to search_command only): a disabled implicit-write command still triggers the implicit-write cut", "a disabled implicit-write command whose name is a prefix of the typed name"),
    "C10_r2": ("process_write_loop: PRINT_CMD_LIST_OK starts the command list (as in the run loop) instead of ERROR", "a write handler returning PRINT_CMD_LIST_OK"),
    "C11_r2": ("unsolicited_process_io_write: a refused write at position 0 drops the event FSM back to its WAIT state (ignores write_state)", "io->write refusing the first payload byte / first trailing-newline byte of an event line while a command response is waiting"),
    "C12_r2": ("parse_command: on CR a second read_cmd_char() in the same call; a non-LF byte read that way is dropped", "a CR inside the name followed by a byte that is already readable"),
    "C13_r2": ("ring index wrap written as (idx + 1) & (SIZE - 1) (only correct for powers of two)", "queue capacity 3 with two events pending"),
    "C14_r2": ("hold_state_flag raised one service call late (inside process_hold_state)", "a release request or cat_is_hold query between the handler returning HOLD and the next call"),
    "C15_r2": ("process_io_write returns OK instead of BUSY when io->write refused the byte", "io->write refusing a byte in the middle of a command response: cat_service reports OK while a repeated call emits"),
    "C16_r2": ("cat_trigger_unsolicited_event: early return on a full queue after lock() without unlock()", "mutex configured and a trigger on a full queue"),
    "C18_r2": ("hold_state_flag cleared only at AFTER_FLUSH_RESET (reset_state) instead of when the hold is left", "observing cat_is_hold while the final response of a released hold is in flight"),
    # ---- round 3 ----
    "C03_r3": ("parse_command_args: NUL store guarded by desc->buf_size instead of the command half's capacity", "shared buffer + argument of exactly capacity bytes: NUL written into the event half"),
    "C04_r3": ("parse_int_decimal: the 'digit seen' flag removed, a lone sign is accepted as 0", "an integer argument that is exactly '+' or '-'"),
    "C05_r3": ("parse_buffer_hexadecimal: terminator condition regrouped, the half-byte check no longer guards ','", "an odd number (>= 3) of hex digits followed by a comma (not the last variable)"),
    "C07_r3": ("print_format_num: truncation check written > len instead of >= len", "buffer capacity exactly equal to the length of the READ text ending in a number: truncated number printed, accepted back by WRITE"),
    "C08_r3": ("is_variables_access_possible: loop 'simplified' so that only the last non-read-write variable decides", "a variable list without RW variables whose last variable has the opposite mode of the request"),
    "C17_r3": ("cat_hold_exit: hold flag tested before lock(), status written unconditionally under the lock", "a second releasing thread losing the race for the mutex to cat_service"),
    "C19_r3": ("print_cmd_list: '?' form listed by (var != NULL ? readable : read handler)", "a command with a read handler whose variables are all write-only (or var set with var_num 0)"),
    "C20_r3": ("parse_command_args: only_test command at LF goes to CAT_STATE_ERROR (LF already consumed) instead of ack_error", "write syntax on a test-only command directly followed by another line: no answer, next line swallowed"),
    # ---- round 4 (after the event-only and hold guided runs were added) ----
    "C02_r4": ("parse_command_args: the '&& implicit_write == false' guard of the 'first argument byte is ?' -> TEST retyping dropped", "an implicit-write command that owns a variable, typed as <name>? : served as TEST (variable listing + OK) instead of WRITE"),
    "C06_r4": ("command_found: the initial get_atcmd_buf(self)[0] = 0 for WRITE removed ('parse_command_args terminates anyway')", "a write line with an empty argument string: data_size 0 but data[0] holds leftovers of the match table"),
    "C09_r4": ("parse_command_args: the early only_test check folded into the later 'no write handler' check (after the writable-variable branch)", "a test-only command that owns a writable variable: AT+X=7 stores the value and runs callbacks"),
    "C10_r4": ("process_test_loop: PRINT_CMD_LIST_OK starts the command list unconditionally (also for an unsolicited test handler)", "an unsolicited test handler returning PRINT_CMD_LIST_OK: list + OK through the command FSM, event never finishes"),
    "C11_r4": ("get_atcmd_buf_size: shared buffer split as (buf_size + 1) >> 1 (command half overlaps byte 0 of the event half for odd sizes)", "an odd shared buf_size and a pending event line while a new command line starts (memset of the command half)"),
    "C12_r4": ("error_state: drains the broken line with a while(read) loop, 'CR seen' kept in a local until the LF", "input chunk boundary between the CR and the LF of a malformed line: newline style of the ERROR answer depends on the chunking"),
    "C13_r4": ("process_read_loop / process_test_loop: HOLD_EXIT_* end the processing only if hold_exit() succeeded", "an event handler returning HOLD_EXIT_* while no command is held: the event never ends, its handler runs on every call, later events starve"),
    "C14_r4": ("hold_state_flag cleared in reset_state() (after the result code was flushed) instead of when the release is processed", "cat_is_hold / cat_hold_exit while the held command's result code is being emitted and afterwards"),
    "C15_r4": ("error_state: while(read) loop without the 'no byte available -> OK' exit (always BUSY)", "input running dry inside a malformed line: cat_service reports BUSY forever without doing anything"),
    "C18_r4": ("is_busy: CAT_STATE_HOLD counts as idle", "cat_is_busy during a hold: OK although the command's result code is still owed"),
    "C01_r4": ("parse_command_args: the only_test reject at LF sets CAT_STATE_ERROR instead of ack_error (same edit as C20_r3, found again independently)", "write syntax on a test-only command directly followed by another line: one ERROR for two lines"),
    "C03_r4": ("get_atcmd_buf_size: shared buffer split as buf_size - (buf_size >> 1): the spare byte of an odd buffer goes to the command half, which then overlaps the event half", "odd shared buf_size: memset / ack text of the command FSM reaches byte 0 of the event half"),
    "C04_r4": ("validate_uint_range: parameter type uint64_t -> int64_t", "unsigned decimal or hex values in [2^63, 2^64): negative in the width check, truncated into the variable, OK"),
    "C05_r4": ("parse_buffer_hexadecimal: write_size = (access == READ_WRITE) ? size : 0", "hex write to a WRITE_ONLY variable: bytes stored, but the variable write callback is told length 0"),
    "C07_r4": ("format_buffer_hexadecimal: locals uint8_t -> char (sign extension into print_format_num's uint32_t)", "a hex buffer holding a byte >= 0x80: READ prints FFFFFF80..., WRITE rejects it"),
    "C08_r4": ("parse_buffer_string end-of-argument: data[size] = 0 stored regardless of the access mode", "a WRITE naming a READ_ONLY string: the stored string is truncated at the length of the refused text"),
    "C16_r4": ("cat_service: unlock() moved before the final 'event work pending -> BUSY' override, its failure kept in s", "unlock failing while an event is queued or in progress: BUSY instead of ERROR_MUTEX_UNLOCK (and shared state read after the unlock)"),
    "C17_r4": ("cat_trigger_unsolicited_read / _test call push_unsolicited_cmd directly (no lock bracket)", "any second thread triggering while cat_service runs"),
    "C19_r4": ("cmd_list_next_cmd skips disabled commands itself, the per-command check in print_cmd_list removed; the cursor still starts at index 0 unchecked", "a disabled FIRST command (or first group) - the request must come from a later command"),
    "C20_r4": ("start_print_cmd_list calls reset_state() (which also clears cr_flag) instead of only resetting cmd_type", "a CRLF-terminated request answered with the command list: bare LF newlines"),
    # ---- round 5 (agents asked for violations that need an unusual configuration) ----
    "C01_r5": ("parse_write_args: a failing variable write callback sets CAT_STATE_ERROR (LF already consumed) instead of ack_error", "a variable write callback rejecting a valid value, followed directly by another line: the next line is swallowed"),
    "C02_r5": ("disabled-command check moved from get_cmd_state() to search_command(): a disabled implicit-write command still raises the implicit-write flag", "a disabled implicit-write command whose name is a prefix / duplicate of an enabled command: that command is served as WRITE"),
    "C06_r5": ("get_atcmd_buf_size: (buf_size + 1) >> 1 for a shared buffer (same edit as C11_r4, found again for C06)", "odd shared buf_size, argument length = buf_size >> 1: accepted, NUL shared with the event half"),
    "C09_r5": ("only_test refusal of the READ form folded into the 'no read handler' check behind the readable-variable early return", "a test-only command with a readable variable answers AT<cmd>? with its values"),
    "C10_r5": ("self->index = 0 moved from start_processing_format_read_args to command_found", "READ of a command with >= 2 variables and a handler returning NEXT / DATA_NEXT: re-formatting covers the first variable only"),
    "C11_r5": ("process_io_write: refusal test io->write(ch) != 1 became == 0", "an io->write that reports 'full' with a value other than 0 or 1: bytes of command answers are skipped"),
    "C13_r5": ("print_response_test: the unsolicited flush continues at IDLE instead of AFTER_FLUSH_OK (saves one service call)", "a TEST event of a command without test handler: the event stays 'in progress' for the observers although the FSM is idle"),
    "C14_r5": ("process_test_loop: CAT_RETURN_STATE_OK folded into the HOLD_EXIT_OK case (calls hold_exit)", "an unsolicited TEST handler returning plain OK while a command is held: the hold ends although nobody asked"),
    "C19_r5": ("format_info_type: the <name:TYPE[access]> token built with one snprintf into char info[32], return value unchecked", "a variable name of >= 19 characters: token cut, fit check sees the shortened text"),
    "C20_r5": ("prepare_parse_command additionally clears cr_flag", "the line's only CR sits between 'A' and 'T': answer with bare LF newlines"),
    "C03_r5": ("prepare_parse_command: memset length get_atcmd_buf_size() -> (commands_num >> 2) + 1", "command count a multiple of 4 with a working buffer of the minimal legal size (e.g. 24 commands, 6 bytes): one byte past the buffer / into the event half"),
    "C04_r5": ("parse_int_decimal accumulates in uint64_t with an UINT64_MAX overflow check and applies the sign afterwards", "signed decimal texts of magnitude in [2^63, 2^64): reinterpreted as small int64 values and stored"),
    "C05_r5": ("parse_buffer_hexadecimal: is_valid_hex_char() replaced by 'convert, reject if nibble > 15'", "the characters : ; < = > ? @ are accepted as hex digits"),
    "C07_r5": ("parse_command_args: the '=?' detection moved to its own case '?' without the length == 0 guard", "a '?' anywhere in WRITE arguments (e.g. inside a string value printed by READ): the line is served as TEST"),
    "C08_r5": ("format_buffer_string: 'does it fit' test on the stored text before the write-only substitution", "a tight command buffer and a long stored write-only string: READ answers ERROR or the empty string depending on the hidden length"),
    "C12_r5": ("process_io_write: a refused write puts the command FSM back into FLUSH_IO_WRITE_WAIT", "an event queued while a command answer is being flushed and io->write refusing a byte: the event line is emitted inside / ahead of the answer"),
    "C15_r5": ("the 'event FSM busy / queue not empty => BUSY' test moved from the end of cat_service into unsolicited_events_service (before the command FSM's step)", "an event triggered from inside io->read in a call whose read returns 'no byte': OK although an event is queued"),
    "C16_r5": ("cat_hold_exit: lock failure test lock() != 0 became lock() > 0", "a mutex whose lock() reports failure with a negative code: the call proceeds without the lock and calls unlock()"),
    "C17_r5": ("process_test_loop: HOLD_EXIT_OK calls the public (locking) cat_hold_exit() from inside cat_service's critical section", "a test handler / TEST event returning HOLD_EXIT_OK with a non-recursive mutex: self-deadlock"),
    "C18_r5": ("is_hold: HOLD only while hold_state_flag is set and hold_exit_status == 0", "cat_is_hold between the application's cat_hold_exit() and the next cat_service(): not HOLD although the command is still suspended"),
    # ---- round 6 (ten more, same request as round 5) ----
    "C03_r6": ("print_nstring_to_buf: guard 'len >= left' rewritten as 'room = left - 1; len > room' (wraps when no byte is left)", "the separator comma filling the last byte of the buffer, or a separate event buffer of size 0"),
    "C06_r6": ("parse_command_args: argument overflow answers with ack_error at once instead of CAT_STATE_ERROR (same idea as C01_r2)", "an over-long line whose tail spells a command: the tail is executed"),
    "C07_r6": ("parse_buffer_hexadecimal: locals 'state' and 'size' narrowed to uint8_t", "a hex buffer variable of data_size >= 256: the byte counter wraps"),
    "C08_r6": ("parse_command_args: the 'nothing writable' path refuses when cmd->write == NULL || cmd->var != NULL", "a command with only read-only variables AND its own write handler: refused instead of handed to the handler"),
    "C10_r6": ("process_read_loop: NEXT re-formats only when the command has a readable variable", "a read command without variables whose handler appends to the buffer and returns NEXT: stale text in the next emission"),
    "C13_r6": ("cat_is_unsolicited_event_buffered: early return when the queried command is the one in progress (kind not compared)", "READ and TEST events of the same command, one in progress, one queued, and a type-specific query"),
    "C14_r6": ("start_processing_format_test_args: print_response_test failure answered with ack_error(self) for both machines", "a TEST event of a variable-less command whose description does not fit the event buffer, during a hold: ERROR for the held command"),
    "C15_r6": ("read_cmd_char: a NUL byte is treated as 'nothing read' (returns 0)", "a 0x00 in the input followed by more bytes: cat_service returns OK with input pending"),
    "C19_r6": ("print_cmd_list: '=?' listed when test != NULL || var != NULL (var_num no longer consulted)", "a command with a variable array attached but var_num == 0 and no test handler"),
    "C20_r6": ("validate_int_range / validate_uint_range: the read-only short-cut no longer sets write_size = 0", "a read-only numeric variable with a write callback that looks at write_size: it sees the length left by the previous line"),
}


def main():
    rows = []
    for pid in sorted(DESC):
        d = os.path.join(VERIF, "seeded", pid)
        if not os.path.isdir(d):
            continue
        out = os.path.join(logdir, "seed_%s.out" % pid)
        prop = pid.split("_")[0]
        viol, summary, rc = [], "", None
        if os.path.exists(out):
            for l in open(out):
                m = re.match(r"VIOLATION property=(\S+) replay=\S*?__(\S+)\.json", l)
                if m:
                    viol.append(m.group(2))
                if l.startswith("SUMMARY"):
                    summary = l.strip()
                m = re.match(r"seed=\S+ prop=\S+ exit=(\d+)", l)
                if m:
                    rc = int(m.group(1))
        meta = {
            "breaks_property": prop,
            "change": DESC[pid][0],
            "needs_to_manifest": DESC[pid][1],
            "written_by": "independent sub-agent given only the property text and a scratch worktree of /repo",
            "confirmed": "tools/seed_confirm.sh: patch applies to /repo HEAD, builds with -Werror -Wall -Wextra -pedantic, 30/30 tests pass, demo.c exits 0 without and non-zero with the change",
            "what_was_run": "tools/seed_run.sh %s seeded/%s/patch.diff %s  (scratch worktree of /repo HEAD + patch, VERIF_REPO=<worktree> ./check %s --tier quick)" % (pid, pid, prop, prop),
            "check_exit_code": rc,
            "detected": bool(viol) and rc == 1,
            "detecting_jobs": sorted(set(viol))[:8],
            "check_summary": summary,
        }
        json.dump(meta, open(os.path.join(d, "meta.json"), "w"), indent=1)
        rows.append((pid, meta["detected"], ", ".join(meta["detecting_jobs"][:3]), rc))
    for r in rows:
        print("%s detected=%s exit=%s jobs=%s" % (r[0], r[1], r[3], r[2]))


if __name__ == "__main__":
    main()
