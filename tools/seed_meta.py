#!/usr/bin/env python3
"""seed_meta.py - write seeded/<id>/meta.json from the confirmation / check logs under a log directory.
usage: tools/seed_meta.py <logdir>   (expects <logdir>/seed_<id>.out written by tools/seed_run.sh)"""
import json, os, re, sys

VERIF = os.path.dirname(os.path.dirname(os.path.abspath(__file__)))
logdir = sys.argv[1] if len(sys.argv) > 1 else "/tmp/w"

DESC = {
    "C01": ("search_command: the 'several partial matches' exit goes to COMMAND_NOT_FOUND unconditionally (re-introduces the fixed defect through a different edit)",
            "an ambiguous abbreviation in WRITE form (name + '=') on a table whose last command is not one of the partial matches"),
    "C02": ("to_upper: range test written as (unsigned char)(ch-'a') < 'z'-'a' (excludes 'z')", "a lower-case 'z' in the typed name or in a registered name"),
    "C03": ("parse_buffer_string escape branch: capacity guard size >= data_size became size > data_size (one byte written past the variable)",
            "a string WRITE with exactly data_size stored characters followed by an escape sequence"),
    "C04": ("parse_uint_decimal: the two-clause 64-bit overflow guard merged into one (val >= MAX/10 && digit > MAX%10)", "an unsigned decimal of >= 20 digits >= 2^64+4 whose wrapped value fits the variable"),
    "C05": ("parse_buffer_string escape branch: size >= data_size became size > data_size", "decoded length reaches data_size+1 through an escape exactly at index data_size"),
    "C06": ("parse_command_args: the else { state = ERROR } after storing an argument byte dropped", "an argument string of exactly buffer-capacity bytes (accepted, handler sees an unterminated buffer)"),
    "C07": ("parse_buffer_string escape branch: capacity check became size + 2 >= data_size", "a string of exactly data_size-1 characters whose last character needs an escape (READ output is rejected by WRITE)"),
    "C08": ("parse_buffer_string escape branch stores the decoded character without testing READ_ONLY", "a WRITE to a read-only string variable whose text contains an escape sequence"),
    "C09": ("is_command_disable: group lookup loop 'simplified' (index > j), first command of every later group is judged by the previous group's flag",
            "two groups, the second disabled: its first command still matches, runs and makes abbreviations ambiguous"),
    "C10": ("parse_write_args: the return after ack_error for a failing variable write callback dropped (falls through to the write handler / OK)",
            "a variable write callback failing on the LAST supplied argument"),
    "C11": ("start_flush_io_buffer_raw enters FLUSH_IO_WRITE directly, skipping the WAIT state that arbitrates with the event FSM", "a command-list line starting while an unsolicited line is being written"),
    "C12": ("process_io_write / unsolicited_process_io_write: state advanced to write_state_after before io->write is known to have accepted the last byte", "io->write refusing exactly the last byte of a unit's trailing newline"),
    "C13": ("cat_is_unsolicited_event_buffered: scan starts at (tail - count) % SIZE instead of head (wrong when 2^64 is not divisible by SIZE)", "queue capacity 3 with wrapped ring indices and a non-full queue"),
    "C14": ("hold_exit records the status even outside a hold; enable_hold_state no longer clears it", "a release request made BEFORE a hold: the next hold ends by itself"),
    "C15": ("unsolicited_process_io_write_wait: event FSM keeps waiting while the command FSM is in a name-parsing state", "a queued event while an unterminated partial line is pending and no more input arrives: livelock (BUSY forever)"),
    "C16": ("process_test_loop HOLD_EXIT_ERROR calls the public cat_hold_exit() (takes the mutex again) instead of the internal helper", "mutex configured and a test handler returning HOLD_EXIT_ERROR: nested lock, double unlock"),
    "C17": ("queue-full test moved out of push_unsolicited_cmd to before mutex->lock() in cat_trigger_unsolicited_event", "two producers racing for the last free slot (needs a real mutex and an interleaving)"),
    "C18": ("is_busy: '!= IDLE' tests became '> IDLE' (CAT_STATE_ERROR = -1 counts as idle)", "a malformed line cut before its LF: cat_is_busy = OK while the line is half consumed and ERROR is owed"),
    "C19": ("print_response_test: newline + description appended with one snprintf and fit check written > instead of >=", "command buffer exactly one byte short of the '=?' text with a description: truncated line + OK instead of ERROR"),
    "C20": ("implicit_write_flag cleared at the LF of parse_command_args instead of where it is consumed", "an over-long implicit-write line (ERROR path never reaches that LF): every later line is treated as implicit write"),
}


def main():
    rows = []
    for pid in sorted(DESC):
        d = os.path.join(VERIF, "seeded", pid)
        if not os.path.isdir(d):
            continue
        out = os.path.join(logdir, "seed_%s.out" % pid)
        viol, summary, rc = [], "", None
        if os.path.exists(out):
            for l in open(out):
                m = re.match(r"VIOLATION property=(\S+) replay=\S*?__(\S+)\.json", l)
                if m:
                    viol.append(m.group(2))
                if l.startswith("SUMMARY"):
                    summary = l.strip()
                m = re.match(r"seed=\S+ prop=\S+ exit=(\d+)", l)
                if m:
                    rc = int(m.group(1))
        meta = {
            "breaks_property": pid,
            "change": DESC[pid][0],
            "needs_to_manifest": DESC[pid][1],
            "written_by": "independent sub-agent given only the property text and a scratch worktree of /repo",
            "confirmed": "tools/seed_confirm.sh: patch applies to /repo HEAD, builds with -Werror -Wall -Wextra -pedantic, 30/30 tests pass, demo.c exits 0 without and non-zero with the change",
            "what_was_run": "tools/seed_run.sh %s seeded/%s/patch.diff %s  (scratch worktree of /repo HEAD + patch, VERIF_REPO=<worktree> ./check %s --tier quick)" % (pid, pid, pid, pid),
            "check_exit_code": rc,
            "detected": bool(viol) and rc == 1,
            "detecting_jobs": sorted(set(viol))[:8],
            "check_summary": summary,
        }
        json.dump(meta, open(os.path.join(d, "meta.json"), "w"), indent=1)
        rows.append((pid, meta["detected"], ", ".join(meta["detecting_jobs"][:3]), rc))
    for r in rows:
        print("%s detected=%s exit=%s jobs=%s" % (r[0], r[1], r[3], r[2]))


if __name__ == "__main__":
    main()
