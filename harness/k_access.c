/*
 * k_access.c - E1 kernel harness for the second clause of C08: a READ is refused when the command offers nothing
 * readable and a WRITE when it offers nothing writable, unless the command has its own handler of that kind.
 * The real command_found() / parse_command_args() dispatch is run on a command of NV variables with symbolic
 * access modes and symbolic handler presence; outcome compared with the reference
 *     readable  = some variable is READ_WRITE or READ_ONLY,  writable = some variable is READ_WRITE or WRITE_ONLY.
 */
#ifndef NV
#define NV 3
#endif
struct scen {
        unsigned char acc[3];
        unsigned char has_read, has_write, kind, nvars;
};
#define SCEN_DEFINED
#include "common.h"

static struct {
        struct cat_object at;
        struct cat_descriptor desc;
        struct cat_command_group grp;
        struct cat_command_group *grps[1];
        struct cat_command cmd;
        struct cat_variable var[3];
        struct cat_io_interface io;
        int rd_calls;
} W;
static uint8_t G_buf[32];
static uint8_t G_ubuf[2];
static uint8_t G_d[3];

static int io_write(char c) { (void)c; return 1; }
static int io_read(char *c) { *c = '\n'; W.rd_calls++; return 1; }
static cat_return_state h_read(const struct cat_command *c, uint8_t *d, size_t *n, const size_t m) { (void)c; (void)d; (void)n; (void)m; return CAT_RETURN_STATE_DATA_OK; }
static cat_return_state h_write(const struct cat_command *c, const uint8_t *d, const size_t n, const size_t a) { (void)c; (void)d; (void)n; (void)a; return CAT_RETURN_STATE_OK; }
static void world_reset(void) { WORLD_ZERO(W); WORLD_ZERO(G_buf); WORLD_ZERO(G_d); }

static void scen_run(void)
{
        unsigned v, nv = S.nvars;
        int readable = 0, writable = 0, is_err;
        ASSUME(nv >= 1 && nv <= NV && S.has_read <= 1 && S.has_write <= 1 && S.kind <= 1);
        for (v = 0; v < NV; v++) ASSUME(S.acc[v] <= 2);
        W.io.read = io_read; W.io.write = io_write;
        for (v = 0; v < NV; v++) {
                W.var[v].type = CAT_VAR_UINT_DEC; W.var[v].data = &G_d[v]; W.var[v].data_size = 1;
                W.var[v].access = (cat_var_access)S.acc[v];
                if (v < nv) {
                        if (S.acc[v] != CAT_VAR_ACCESS_WRITE_ONLY) readable = 1;
                        if (S.acc[v] != CAT_VAR_ACCESS_READ_ONLY) writable = 1;
                }
        }
        W.cmd.name = "+V"; W.cmd.var = W.var; W.cmd.var_num = nv;
        W.cmd.read = S.has_read ? h_read : NULL;
        W.cmd.write = S.has_write ? h_write : NULL;
        W.grp.cmd = &W.cmd; W.grp.cmd_num = 1; W.grps[0] = &W.grp;
        W.desc.cmd_group = W.grps; W.desc.cmd_group_num = 1;
        W.desc.buf = G_buf; W.desc.buf_size = 32;
        W.desc.unsolicited_buf = G_ubuf; W.desc.unsolicited_buf_size = 2;
        cat_init(&W.at, &W.desc, &W.io, NULL);
        W.at.cmd = &W.cmd;

        CHK(C08, is_variables_access_possible(&W.at, &W.cmd, CAT_VAR_ACCESS_READ_ONLY) == (readable != 0), "'something readable' is not 'some variable is read-write or read-only'");
        CHK(C08, is_variables_access_possible(&W.at, &W.cmd, CAT_VAR_ACCESS_WRITE_ONLY) == (writable != 0), "'something writable' is not 'some variable is read-write or write-only'");

        if (S.kind == 0) {
                /* AT+V? : dispatch of a READ */
                W.at.cmd_type = CAT_CMD_TYPE_READ;
                W.at.state = CAT_STATE_COMMAND_FOUND;
                command_found(&W.at);
                is_err = (W.at.state == CAT_STATE_FLUSH_IO_WRITE_WAIT && W.at.write_state_after == CAT_STATE_AFTER_FLUSH_RESET && G_buf[0] == 'E');
                CHK(C08, is_err == (!readable && !S.has_read), "a READ must be refused exactly when nothing is readable and there is no read handler");
                if (readable) CHK(C08, W.at.state == CAT_STATE_FORMAT_READ_ARGS, "readable variables are formatted");
        } else {
                /* AT+V=<LF> : dispatch of a WRITE at the end of the argument text */
                W.at.cmd_type = CAT_CMD_TYPE_WRITE;
                W.at.state = CAT_STATE_PARSE_COMMAND_ARGS;
                W.at.length = 0; G_buf[0] = 0;
                parse_command_args(&W.at);
                is_err = (W.at.state == CAT_STATE_FLUSH_IO_WRITE_WAIT && W.at.write_state_after == CAT_STATE_AFTER_FLUSH_RESET && G_buf[0] == 'E');
                CHK(C08, is_err == (!writable && !S.has_write), "a WRITE must be refused exactly when nothing is writable and there is no write handler");
                if (writable) CHK(C08, W.at.state == CAT_STATE_PARSE_WRITE_ARGS, "writable variables are parsed");
        }
        WITNESS(!readable && S.kind == 0 && !S.has_read, "read-refused");
        WITNESS(writable && nv == 3 && S.acc[0] == 1 && S.acc[2] == 1, "writable-in-the-middle");
}
#ifndef __CPROVER__
static void scen_sample(void)
{
        S.acc[0] = (unsigned char)rnd(3); S.acc[1] = (unsigned char)rnd(3); S.acc[2] = (unsigned char)rnd(3);
        S.has_read = (unsigned char)rnd(2); S.has_write = (unsigned char)rnd(2); S.kind = (unsigned char)rnd(2); S.nvars = (unsigned char)(1 + rnd(NV));
}
#endif
