/*
 * s_api.c - E2 step obligations for the small API functions, from ANY object state whose event
 * ring satisfies the ring clause of RI (head, tail < CAP, count <= CAP, tail = (head+count) mod CAP,
 * occupied slots hold table commands and READ/TEST): one call of function FN.
 *
 *   FN 0 cat_is_busy   1 cat_is_hold   2 cat_is_unsolicited_buffer_full   3 cat_trigger_unsolicited_event
 *      4 cat_trigger_unsolicited_read  5 cat_trigger_unsolicited_test     6 cat_hold_exit
 *      7 cat_is_unsolicited_event_buffered   8 cat_get_processed_command
 *
 *  C13  the ring behaves as a bounded FIFO queue (abstraction = the count entries from head);
 *       trigger appends iff not full, else BUFFER_FULL and nothing changes; the queries agree with it
 *  C14  cat_hold_exit outside a hold = ERROR_NOT_HOLD and no effect; inside = records the status
 *  C16  (MUTEX=1) lock first and once, unlock last and once, nothing touched outside the bracket,
 *       lock failure = ERROR_MUTEX_LOCK with nothing done, unlock failure = ERROR_MUTEX_UNLOCK
 *  C17  (MUTEX=1, HAVOC=1) the lock callback replaces the shared fields by any other valid value
 *       (other threads ran while we waited) and the unlock callback does so again: result and effect
 *       must be functions of the state found under the lock only (lock-set discipline)
 *  C18  cat_is_hold = HOLD iff suspended
 */
#ifndef FN
#define FN 3
#endif
#ifndef MUTEX
#define MUTEX 0
#endif
#ifndef HAVOC
#define HAVOC 0
#endif
#ifndef RINGCAP
#define RINGCAP 1
#endif
#define NCMD 3

struct shared {                         /* the fields other threads may change through the locking API */
        unsigned char rhead, rtail, rcount;
        unsigned char rcmd[8], rtype[8];
        unsigned char holdflag, holdstatus;
};

struct scen {
        unsigned char st[3];            /* three generations of the shared fields: entry, after lock, after unlock */
        unsigned char rhead[3], rtail[3], rcount[3];
        unsigned char rcmd[3][8], rtype[3][8];
        unsigned char holdflag[3], holdstatus[3];
        unsigned char state, ustate, ucmdsel, ucmdtype, cmdsel;
        unsigned char arg_cmd, arg_type, arg_status, arg_fsm;
        unsigned char lock_ret[4], unlock_ret[4];
};
#define SCEN_DEFINED
#include "common.h"

static struct {
        struct cat_object at;
        struct cat_descriptor desc;
        struct cat_command_group grp;
        struct cat_command_group *grps[1];
        struct cat_command cmd[NCMD];
        struct cat_io_interface io;
        struct cat_mutex_interface mx;
        int locks, unlocks, locked, io_calls;
        int touched_before_lock, unlock_while_unlocked, lock_while_locked;
} W;
static uint8_t G_buf[16];
static struct cat_object ENTRY, AT_LOCK, AT_UNLOCK;

static void world_reset(void)
{
        WORLD_ZERO(W);
        WORLD_ZERO(G_buf);
}

static int32_t s32(const unsigned char *b) { return (int32_t)vf_u32(b); }
static int io_read(char *c) { (void)c; W.io_calls++; return 0; }
static int io_write(char c) { (void)c; W.io_calls++; return 1; }
static const struct cat_command *sel_cmd(unsigned char s) { return (s < NCMD) ? &W.cmd[s] : NULL; }
static cat_cmd_type sel_type(unsigned char s) { return (cat_cmd_type)((int)(s % 6) - 1); }

static int same_object(const struct cat_object *a, const struct cat_object *b)
{
        unsigned i;
        int same = a->state == b->state && a->index == b->index && a->length == b->length && a->position == b->position &&
                   a->cmd == b->cmd && a->var == b->var && a->cmd_type == b->cmd_type && a->cr_flag == b->cr_flag &&
                   a->hold_state_flag == b->hold_state_flag && a->hold_exit_status == b->hold_exit_status &&
                   a->write_buf == b->write_buf && a->write_state == b->write_state && a->write_state_after == b->write_state_after &&
                   a->unsolicited_fsm.state == b->unsolicited_fsm.state && a->unsolicited_fsm.cmd == b->unsolicited_fsm.cmd &&
                   a->unsolicited_fsm.cmd_type == b->unsolicited_fsm.cmd_type && a->unsolicited_fsm.position == b->unsolicited_fsm.position &&
                   a->unsolicited_fsm.unsolicited_cmd_buffer_head == b->unsolicited_fsm.unsolicited_cmd_buffer_head &&
                   a->unsolicited_fsm.unsolicited_cmd_buffer_tail == b->unsolicited_fsm.unsolicited_cmd_buffer_tail &&
                   a->unsolicited_fsm.unsolicited_cmd_buffer_items_count == b->unsolicited_fsm.unsolicited_cmd_buffer_items_count;
        for (i = 0; i < RINGCAP; i++)
                same = same && a->unsolicited_fsm.unsolicited_cmd_buffer[i].cmd == b->unsolicited_fsm.unsolicited_cmd_buffer[i].cmd &&
                       a->unsolicited_fsm.unsolicited_cmd_buffer[i].type == b->unsolicited_fsm.unsolicited_cmd_buffer[i].type;
        return same;
}

static void install_shared(int gen)
{
        struct cat_unsolicited_fsm *u = &W.at.unsolicited_fsm;
        unsigned i;
        u->unsolicited_cmd_buffer_head = S.rhead[gen];
        u->unsolicited_cmd_buffer_tail = S.rtail[gen];
        u->unsolicited_cmd_buffer_items_count = S.rcount[gen];
        for (i = 0; i < RINGCAP && i < 8; i++) {
                u->unsolicited_cmd_buffer[i].cmd = sel_cmd(S.rcmd[gen][i]);
                u->unsolicited_cmd_buffer[i].type = sel_type(S.rtype[gen][i]);
        }
        W.at.hold_state_flag = S.holdflag[gen] & 1;
        W.at.hold_exit_status = (int)(S.holdstatus[gen] % 3) - 1;
}

static void assume_shared(int gen)
{
        unsigned i;
        ASSUME(S.rhead[gen] < RINGCAP && S.rtail[gen] < RINGCAP && S.rcount[gen] <= RINGCAP);
        ASSUME(S.rtail[gen] == (S.rhead[gen] + S.rcount[gen]) % RINGCAP);
        for (i = 0; i < RINGCAP && i < 8; i++) {
                unsigned slot = (S.rhead[gen] + i) % RINGCAP;
                if (i < S.rcount[gen]) {
                        ASSUME(S.rcmd[gen][slot] < NCMD);
                        ASSUME(sel_type(S.rtype[gen][slot]) == CAT_CMD_TYPE_READ || sel_type(S.rtype[gen][slot]) == CAT_CMD_TYPE_TEST);
                }
        }
}

static int m_lock(void)
{
        W.locks++;
        if (W.locked) W.lock_while_locked = 1;
        if (!same_object(&W.at, &ENTRY)) W.touched_before_lock = 1;
        if (s32(S.lock_ret) != 0)
                return s32(S.lock_ret);
        W.locked = 1;
#if HAVOC
        install_shared(1);   /* whatever other threads did while we were waiting for the lock */
#endif
        AT_LOCK = W.at;
        return 0;
}

static int m_unlock(void)
{
        W.unlocks++;
        if (!W.locked) W.unlock_while_unlocked = 1;
        AT_UNLOCK = W.at;
        W.locked = 0;
#if HAVOC
        install_shared(2);   /* other threads proceed as soon as the lock is released */
#endif
        return s32(S.unlock_ret);
}

/* abstraction: is (cmd,type) in the queue described by generation gen? */
static int queued(int gen, const struct cat_command *c, cat_cmd_type t)
{
        unsigned i;
        int hit = 0;
        for (i = 0; i < RINGCAP && i < 8; i++) {
                unsigned slot = (S.rhead[gen] + i) % RINGCAP;
                if (i < S.rcount[gen] && sel_cmd(S.rcmd[gen][slot]) == c && (t == CAT_CMD_TYPE_NONE || sel_type(S.rtype[gen][slot]) == t))
                        hit = 1;
        }
        return hit;
}

static void scen_run(void)
{
        struct cat_object *o = &W.at;
        struct cat_unsolicited_fsm *u = &o->unsolicited_fsm;
        const struct cat_command *acmd;
        cat_cmd_type atype;
        cat_status r = CAT_STATUS_OK, status;
        const struct cat_command *rp = NULL;
        unsigned i;
        int g = (MUTEX && HAVOC) ? 1 : 0;      /* generation of the shared fields the function must act on */
        int lockfail, unlockfail;

        assume_shared(0);
        assume_shared(1);
        assume_shared(2);
        ASSUME(S.state <= 25 && S.ustate <= 10);
        ASSUME(S.arg_cmd < NCMD);
        lockfail = MUTEX && s32(S.lock_ret) != 0;
        unlockfail = MUTEX && !lockfail && s32(S.unlock_ret) != 0;

        W.cmd[0].name = "+A"; W.cmd[1].name = "+B"; W.cmd[2].name = "+C";
        W.grp.cmd = W.cmd; W.grp.cmd_num = NCMD; W.grps[0] = &W.grp;
        W.desc.cmd_group = W.grps; W.desc.cmd_group_num = 1;
        W.desc.buf = G_buf; W.desc.buf_size = 16;
        W.io.read = io_read; W.io.write = io_write;
        W.mx.lock = m_lock; W.mx.unlock = m_unlock;
        cat_init(o, &W.desc, &W.io, MUTEX ? &W.mx : NULL);
        o->state = (cat_state)((int)S.state - 1);
        u->state = (cat_unsolicited_state)S.ustate;
        u->cmd = sel_cmd(S.ucmdsel);
        u->cmd_type = sel_type(S.ucmdtype);
        o->cmd = sel_cmd(S.cmdsel);
        install_shared(0);
        ENTRY = *o;
        AT_LOCK = *o;
        AT_UNLOCK = *o;

        acmd = &W.cmd[S.arg_cmd];
        atype = (S.arg_type & 1) ? CAT_CMD_TYPE_READ : CAT_CMD_TYPE_TEST;
        status = (cat_status)((int)(S.arg_status % 11) - 7);

#if FN == 0
        r = cat_is_busy(o);
#elif FN == 1
        r = cat_is_hold(o);
#elif FN == 2
        r = cat_is_unsolicited_buffer_full(o);
#elif FN == 3
        r = cat_trigger_unsolicited_event(o, acmd, atype);
#elif FN == 4
        atype = CAT_CMD_TYPE_READ;
        r = cat_trigger_unsolicited_read(o, acmd);
#elif FN == 5
        atype = CAT_CMD_TYPE_TEST;
        r = cat_trigger_unsolicited_test(o, acmd);
#elif FN == 6
        r = cat_hold_exit(o, status);
#elif FN == 7
        atype = (cat_cmd_type)((int)(S.arg_type % 5) - 1);   /* NONE is the wildcard */
        r = cat_is_unsolicited_event_buffered(o, acmd, atype);
#elif FN == 8
        rp = cat_get_processed_command(o, (S.arg_fsm & 1) ? CAT_FSM_TYPE_UNSOLICITED : CAT_FSM_TYPE_ATCMD);
#endif

        /* ---- C16: bracket --------------------------------------------------------------------- */
#if MUTEX && FN <= 6
        CHK(C16, W.locks == 1 && !W.lock_while_locked, "the lock is taken exactly once and never while held");
        CHK(C16, !W.touched_before_lock, "parser state touched before the lock was taken");
        CHK(C16, W.io_calls == 0, "io callback outside the intended scope");
        if (lockfail) {
                CHK(C16, r == CAT_STATUS_ERROR_MUTEX_LOCK, "lock failure must be reported as ERROR_MUTEX_LOCK");
                CHK(C16, W.unlocks == 0, "unlock called although the lock was not obtained");
                CHK(C16, same_object(o, &ENTRY), "lock failed, yet the call changed the parser");
        } else {
                CHK(C16, W.unlocks == 1 && !W.unlock_while_unlocked, "exactly one unlock after a successful lock");
                if (unlockfail)
                        CHK(C16, r == CAT_STATUS_ERROR_MUTEX_UNLOCK, "unlock failure must be reported as ERROR_MUTEX_UNLOCK");
#if !HAVOC
                CHK(C16, same_object(o, &AT_UNLOCK), "parser state touched after the lock was released");
#endif
        }
#endif
#if MUTEX && HAVOC && FN <= 6
        /* ---- C17: everything read or written lies inside the critical section ------------------- */
        if (!lockfail) {
                /* after unlock the shared fields were replaced by generation 2: the function must not have written over them */
                struct cat_object expect2 = AT_UNLOCK;
                (void)expect2;
                CHK(C17, u->unsolicited_cmd_buffer_items_count == S.rcount[2] && u->unsolicited_cmd_buffer_head == S.rhead[2] &&
                         u->unsolicited_cmd_buffer_tail == S.rtail[2] && o->hold_state_flag == (S.holdflag[2] & 1) &&
                         o->hold_exit_status == (int)(S.holdstatus[2] % 3) - 1,
                    "shared parser state written after the lock was released");
        }
#endif

        if (!lockfail) {
                const struct cat_object *eff = MUTEX ? &AT_UNLOCK : o;   /* the state the call left under the lock */
                const struct cat_object *pre = MUTEX ? &AT_LOCK : &ENTRY;
                unsigned cnt = S.rcount[g];
                (void)pre;
#if FN == 1
                if (!unlockfail) {
                        CHK(C18, (r == CAT_STATUS_HOLD) == ((S.holdflag[g] & 1) != 0) && (r == CAT_STATUS_HOLD || r == CAT_STATUS_OK), "cat_is_hold reports HOLD iff a command is suspended");
                        CHK(C17, (r == CAT_STATUS_HOLD) == ((S.holdflag[g] & 1) != 0), "result computed from state read outside the critical section");
                }
                CHK(C13, same_object(eff, pre), "a query changed the parser");
#elif FN == 0
                CHK(C13, same_object(eff, pre), "a query changed the parser");
                if (!unlockfail) CHK(C18, r == CAT_STATUS_OK || r == CAT_STATUS_BUSY, "cat_is_busy returns OK or BUSY");
#elif FN == 2
                if (!unlockfail) {
                        CHK(C13, (r == CAT_STATUS_ERROR_BUFFER_FULL) == (cnt == RINGCAP) && (r == CAT_STATUS_ERROR_BUFFER_FULL || r == CAT_STATUS_OK),
                            "cat_is_unsolicited_buffer_full predicts exactly whether a trigger would be refused");
                        CHK(C17, (r == CAT_STATUS_ERROR_BUFFER_FULL) == (cnt == RINGCAP), "result computed from state read outside the critical section");
                }
                CHK(C13, same_object(eff, pre), "a query changed the parser");
#elif FN >= 3 && FN <= 5
                {
                        const struct cat_unsolicited_fsm *e = &eff->unsolicited_fsm;
                        if (cnt < RINGCAP) {
                                unsigned slot = (S.rhead[g] + cnt) % RINGCAP;
                                if (!unlockfail) CHK(C13, r == CAT_STATUS_OK, "a trigger is accepted whenever fewer than CAPACITY events are waiting");
                                CHK(C13, e->unsolicited_cmd_buffer_items_count == cnt + 1 && e->unsolicited_cmd_buffer_head == S.rhead[g] &&
                                         e->unsolicited_cmd_buffer_tail == (S.rtail[g] + 1) % RINGCAP,
                                    "accepted trigger appends exactly one entry at the tail");
                                CHK(C13, e->unsolicited_cmd_buffer[slot].cmd == acmd && e->unsolicited_cmd_buffer[slot].type == atype, "the appended entry is the triggered (command, kind)");
                                for (i = 0; i < RINGCAP && i < 8; i++)
                                        if (i != slot)
                                                CHK(C13, e->unsolicited_cmd_buffer[i].cmd == sel_cmd(S.rcmd[g][i]) && e->unsolicited_cmd_buffer[i].type == sel_type(S.rtype[g][i]),
                                                    "a waiting event was overwritten by a trigger");
                                if (!unlockfail) CHK(C17, r == CAT_STATUS_OK, "result computed from state read outside the critical section");
                        } else {
                                if (!unlockfail) CHK(C13, r == CAT_STATUS_ERROR_BUFFER_FULL, "a trigger on a full queue reports BUFFER_FULL");
                                CHK(C13, e->unsolicited_cmd_buffer_items_count == cnt && e->unsolicited_cmd_buffer_head == S.rhead[g] && e->unsolicited_cmd_buffer_tail == S.rtail[g],
                                    "a refused trigger left a trace in the queue");
                                for (i = 0; i < RINGCAP && i < 8; i++)
                                        CHK(C13, e->unsolicited_cmd_buffer[i].cmd == sel_cmd(S.rcmd[g][i]) && e->unsolicited_cmd_buffer[i].type == sel_type(S.rtype[g][i]),
                                            "a refused trigger overwrote a waiting event");
                                if (!unlockfail) CHK(C17, r == CAT_STATUS_ERROR_BUFFER_FULL, "result computed from state read outside the critical section");
                        }
                        CHK(C13, eff->state == pre->state && e->state == pre->unsolicited_fsm.state && e->cmd == pre->unsolicited_fsm.cmd &&
                                 eff->hold_state_flag == pre->hold_state_flag && eff->hold_exit_status == pre->hold_exit_status,
                            "a trigger changed something other than the queue");
                }
#elif FN == 6
                if ((S.holdflag[g] & 1) == 0) {
                        if (!unlockfail) CHK(C14, r == CAT_STATUS_ERROR_NOT_HOLD, "release request outside a hold reports ERROR_NOT_HOLD");
                        CHK(C14, same_object(eff, pre), "release request outside a hold had an effect");
                } else {
                        if (!unlockfail) CHK(C14, r == CAT_STATUS_OK, "release request during a hold is accepted");
                        CHK(C14, eff->hold_exit_status == ((status == CAT_STATUS_OK) ? 1 : -1) && eff->hold_state_flag != false, "release request records the requested status");
                        CHK(C14, eff->state == pre->state && eff->unsolicited_fsm.unsolicited_cmd_buffer_items_count == pre->unsolicited_fsm.unsolicited_cmd_buffer_items_count,
                            "release request changed something other than the pending status");
                }
                if (!unlockfail) CHK(C17, (r == CAT_STATUS_ERROR_NOT_HOLD) == ((S.holdflag[g] & 1) == 0), "result computed from state read outside the critical section");
#elif FN == 7
                {
                        int inprog = (sel_cmd(S.ucmdsel) == acmd) && (atype == CAT_CMD_TYPE_NONE || sel_type(S.ucmdtype) == atype);
                        CHK(C13, (r == CAT_STATUS_BUSY) == (inprog || queued(0, acmd, atype)) && (r == CAT_STATUS_BUSY || r == CAT_STATUS_OK),
                            "cat_is_unsolicited_event_buffered = BUSY iff the event is in progress or waiting in the queue");
                        CHK(C13, same_object(o, &ENTRY), "a query changed the parser");
                }
#elif FN == 8
                CHK(C13, rp == ((S.arg_fsm & 1) ? sel_cmd(S.ucmdsel) : sel_cmd(S.cmdsel)), "cat_get_processed_command reports the command in progress");
                CHK(C13, same_object(o, &ENTRY), "a query changed the parser");
#endif
        }
        (void)rp; (void)status; (void)atype; (void)acmd; (void)unlockfail; (void)r;
        WITNESS(!lockfail, "lock-obtained");
#if FN >= 3 && FN <= 5
        WITNESS(!lockfail && r == CAT_STATUS_OK, "trigger-accepted");
        WITNESS(!lockfail && r == CAT_STATUS_ERROR_BUFFER_FULL, "trigger-refused");
#endif
}

#ifndef __CPROVER__
static void scen_sample(void)
{
        int g;
        unsigned i;
        rnd_bytes((unsigned char *)&S, sizeof(S));
        for (g = 0; g < 3; g++) {
                S.rhead[g] = (unsigned char)rnd(RINGCAP); S.rcount[g] = (unsigned char)rnd(RINGCAP + 1);
                S.rtail[g] = (unsigned char)((S.rhead[g] + S.rcount[g]) % RINGCAP);
                for (i = 0; i < 8; i++) { S.rcmd[g][i] = (unsigned char)rnd(3); S.rtype[g][i] = (unsigned char)(rnd(2) ? 2 : 4); }
        }
        S.state = (unsigned char)rnd(26); S.ustate = (unsigned char)rnd(11);
        S.arg_cmd = (unsigned char)rnd(NCMD);
        for (i = 0; i < 4; i++) { S.lock_ret[i] = S.unlock_ret[i] = 0; }
        if (rnd(4) == 0) S.lock_ret[0] = (unsigned char)(1 + rnd(3));
        if (rnd(4) == 0) S.unlock_ret[0] = (unsigned char)(1 + rnd(3));
}
#endif
