/*
 * k_wo.c - E1 self-composition for the non-disclosure clause of C08: the real READ formatter
 * (start_processing_format_read_args + format_read_args) is run twice on a command whose LAST variable is
 * write-only; the two runs differ only in the stored contents of that variable (symbolic, any bytes - also
 * different string lengths); everything the formatter leaves behind - the response text, the parser state,
 * what happens after the flush - must be identical, for every capacity of the command buffer (also the ones
 * that are too small for the text).
 *
 * Build macros: T0 = type of the write-only variable 0..4; LEAD = 1: a read-write uint8 precedes it.
 */
#ifndef T0
#define T0 4
#endif
#ifndef LEAD
#define LEAD 0
#endif
#ifndef CAP
#define CAP 32
#endif
#define MAXDS 8
#define NV (1 + LEAD)

struct scen {
        unsigned char a[MAXDS];          /* contents in run A */
        unsigned char b[MAXDS];          /* contents in run B */
        unsigned char ds;                /* data_size (buffers: 1..8, numbers: 1, 2, 4) */
        unsigned char cap;               /* command-buffer capacity 6..CAP */
        unsigned char lead;              /* value of the leading read-write uint8 */
        unsigned char vread_fail;        /* the variable's read callback: 0 none, 1 present and ok */
};
#define SCEN_DEFINED
#include "common.h"

static struct {
        struct cat_object at;
        struct cat_descriptor desc;
        struct cat_command_group grp;
        struct cat_command_group *grps[1];
        struct cat_command cmd;
        struct cat_variable var[2];
        struct cat_io_interface io;
        uint8_t ubuf[2];
        cat_state st[2], after[2];
        unsigned pos[2];
} W;
static uint8_t G_buf[CAP];
static uint8_t OUT_A[CAP];
static union { uint8_t b[MAXDS]; uint32_t align; } G_wo;
static uint8_t G_lead;

static int io_write(char c) { (void)c; return 1; }
static int io_read(char *c) { (void)c; return 0; }
static int v_read(const struct cat_variable *v) { (void)v; return 0; }

static void world_reset(void)
{
        WORLD_ZERO(W);
        WORLD_ZERO(G_buf);
        WORLD_ZERO(OUT_A);
        WORLD_ZERO(G_wo);
        G_lead = 0;
}

static int is_buf_type(int t) { return t == CAT_VAR_BUF_HEX || t == CAT_VAR_BUF_STRING; }

static void one_run(int lane)
{
        unsigned i, v;
        for (i = 0; i < CAP; i++) G_buf[i] = 0x7e;
        W.at.cmd = &W.cmd;
        W.at.cmd_type = CAT_CMD_TYPE_READ;
        W.at.position = 0; W.at.index = 0; W.at.var = NULL; W.at.write_buf = NULL;
        W.at.state = CAT_STATE_COMMAND_FOUND;
        W.at.write_state_after = CAT_STATE_IDLE;
        start_processing_format_read_args(&W.at, CAT_FSM_TYPE_ATCMD);
        for (v = 0; v < NV; v++) {
                if (W.at.state == CAT_STATE_FORMAT_READ_ARGS) {
                        CHK(C08, W.at.var == &W.var[v] && W.at.index == v, "formatting visits the variables in order");
                        ASSUME(W.at.var == &W.var[v] && W.at.index == v);
                        W.at.var = &W.var[v]; W.at.index = v;
                        format_read_args(&W.at, CAT_FSM_TYPE_ATCMD);
                }
        }
        W.st[lane] = W.at.state;
        W.after[lane] = W.at.write_state_after;
        W.pos[lane] = (unsigned)W.at.position;
}

static void scen_run(void)
{
        unsigned i, ds = S.ds;

        ASSUME(S.cap >= 6 && S.cap <= CAP);
        ASSUME(ds >= 1 && ds <= MAXDS);
        if (!is_buf_type(T0))
                ASSUME(ds == 1 || ds == 2 || ds == 4);
        ASSUME(S.vread_fail <= 1);

        W.io.read = io_read; W.io.write = io_write;
#if LEAD
        W.var[0].type = CAT_VAR_UINT_DEC; W.var[0].data = &G_lead; W.var[0].data_size = 1; W.var[0].access = CAT_VAR_ACCESS_READ_WRITE;
#endif
        W.var[LEAD].type = (cat_var_type)(T0);
        W.var[LEAD].data = G_wo.b;
        W.var[LEAD].data_size = ds;
        W.var[LEAD].access = CAT_VAR_ACCESS_WRITE_ONLY;
        W.var[LEAD].read = S.vread_fail ? v_read : NULL;
        W.cmd.name = "+V";
        W.cmd.var = W.var;
        W.cmd.var_num = NV;
        W.grp.cmd = &W.cmd; W.grp.cmd_num = 1;
        W.grps[0] = &W.grp;
        W.desc.cmd_group = W.grps; W.desc.cmd_group_num = 1;
        W.desc.buf = G_buf; W.desc.buf_size = S.cap;
        W.desc.unsolicited_buf = W.ubuf;
        W.desc.unsolicited_buf_size = 2;
        cat_init(&W.at, &W.desc, &W.io, NULL);
        G_lead = S.lead;

        /* ---- run A ---- */
        for (i = 0; i < MAXDS; i++) G_wo.b[i] = S.a[i];
        one_run(0);
        for (i = 0; i < CAP; i++) OUT_A[i] = G_buf[i];
        /* ---- run B: only the write-only variable's stored bytes differ ---- */
        for (i = 0; i < MAXDS; i++) G_wo.b[i] = S.b[i];
        one_run(1);

        CHK(C08, W.st[0] == W.st[1] && W.after[0] == W.after[1], "whether a READ answer is produced (or refused) depends on the contents of a write-only variable");
        CHK(C08, W.pos[0] == W.pos[1], "the length of a READ answer depends on the contents of a write-only variable");
        for (i = 0; i < CAP; i++)
                if (i < S.cap)
                        CHK(C08, G_buf[i] == OUT_A[i], "a byte of the READ answer depends on the contents of a write-only variable");

        WITNESS(W.st[0] == CAT_STATE_FLUSH_IO_WRITE_WAIT && W.after[0] == CAT_STATE_AFTER_FLUSH_OK, "answer-produced");
        WITNESS(W.st[0] == CAT_STATE_FLUSH_IO_WRITE_WAIT && W.after[0] == CAT_STATE_AFTER_FLUSH_RESET, "answer-does-not-fit");
        WITNESS(S.a[0] != S.b[0], "contents-differ");
}

#ifndef __CPROVER__
static void scen_sample(void)
{
        unsigned i;
        rnd_bytes((unsigned char *)&S, sizeof(S));
        S.cap = (unsigned char)(rnd(2) ? CAP : 6 + rnd(CAP - 5));
        S.ds = (unsigned char)(is_buf_type(T0) ? 1 + rnd(MAXDS) : (1u << rnd(3)));
        S.vread_fail = (unsigned char)rnd(2);
        if (rnd(2)) for (i = 0; i < MAXDS; i++) { S.a[i] = RND_PICK("ab\"\\\n0"); S.b[i] = RND_PICK("ab\"\\\n0"); }
        if (rnd(2)) S.a[rnd(MAXDS)] = 0;
        if (rnd(2)) S.b[rnd(MAXDS)] = 0;
}
#endif
