/*
 * world.h - the environment shared by the E3 (public API, guided run) harnesses.
 *
 * The harness defines configuration macros and optional hooks, then includes this file, which
 * declares struct scen (every nondeterministic choice as bytes), builds a command table from it,
 * provides the io callbacks / handlers / logs and the online output-unit parser.
 *
 * Configuration (defaults in parentheses)
 *   M (3) commands, G (1) groups (group 1 starts at index G1_START), K (2) max name length
 *   L input bytes, N service steps, CAPB_MIN/CAPB_MAX total working-buffer size range (shared)
 *   SEPARATE_UBUF: 1 = a separate unsolicited buffer of UB bytes is configured
 *   SYM_NAMES / SYM_FLAGS / SYM_HANDLERS / SYM_SCHED_R / SYM_SCHED_W : which parts are symbolic
 *   NRC return codes available to handlers, CODESET(i) maps a byte to a cat_return_state
 * Hooks (macros, default empty): ON_READ_DELIVERED(ch), ON_WRITE_ACCEPTED(ch), ON_UNIT(kind),
 *   ON_HANDLER(ci, kind), SCEN_EXTRA (extra struct scen fields)
 */
#ifndef M
#define M 3
#endif
#ifndef G
#define G 1
#endif
#ifndef G1_START
#define G1_START (M - 1)
#endif
#ifndef K
#define K 2
#endif
#if defined(SHAPESTR) && !defined(L)
#define L (sizeof(SHAPESTR) - 1) /* one class letter per input byte */
#endif
#ifndef L
#define L 6
#endif
#ifndef N
#define N 60
#endif
#ifndef CAPB_MIN
#define CAPB_MIN 12
#endif
#ifndef CAPB_MAX
#define CAPB_MAX 24
#endif
#ifndef SEPARATE_UBUF
#define SEPARATE_UBUF 0
#endif
#ifndef UB
#define UB 8
#endif
#ifndef NRC
#define NRC 4
#endif
#ifndef OUTMAX
#define OUTMAX 64
#endif
#ifndef NH
#define NH 6
#endif
#ifndef PAYMAX
#define PAYMAX 8   /* payload bytes kept for classification (OK / ERROR); harnesses that compare texts raise it */
#endif
#ifndef SCEN_EXTRA
#define SCEN_EXTRA
#endif
#ifndef SYM_NAMES
#define SYM_NAMES 1
#endif
#ifndef SYM_FLAGS
#define SYM_FLAGS 1
#endif
#ifndef SYM_HANDLERS
#define SYM_HANDLERS 1
#endif
#ifndef SYM_SCHED_R
#define SYM_SCHED_R 0
#endif
#ifndef SYM_SCHED_W
#define SYM_SCHED_W 0
#endif
#ifndef NVAR
#define NVAR 2 /* variables owned by command 1 (uint8) and command 2 (int8) */
#endif

/* flag bits */
#define F_DISABLE 1
#define F_ONLY_TEST 2
#define F_IMPLICIT 4
#define F_NEED_ALL 8
/* handler mask bits */
#define H_WRITE 1
#define H_READ 2
#define H_RUN 4
#define H_TEST 8

struct scen {
        unsigned char in[L];
        unsigned char in_len;
        unsigned char nm[M][K];
        unsigned char nl[M];
        unsigned char fl[M];
        unsigned char hm[M];
        unsigned char gd[2];
        unsigned char capb;
        unsigned char rc[NRC];
        unsigned char sr[N];         /* read schedule per step: 1 = the read is refused (not ready); 0 = ready - the all-zero default is the eager schedule */
        unsigned char sw[N];         /* write schedule per step: 1 = the write is refused */
        unsigned char vinit[4];
        unsigned char vacc[2];
        unsigned char vcb[2];        /* variable callbacks present: bit0 write, bit1 read */
        unsigned char vrc[2];        /* their result: 0 ok, else error */
        unsigned char jk[28];        /* junk for the scratch fields of an idle parser (junk-idle start) */
        unsigned char jbuf[CAPB_MAX];
        SCEN_EXTRA
};
#define SCEN_DEFINED
#include "common.h"

#ifndef ON_READ_DELIVERED
#define ON_READ_DELIVERED(ch) do { } while (0)
#endif
#ifndef ON_READ_ATTEMPT
#define ON_READ_ATTEMPT() do { } while (0)
#endif
#ifndef ON_WRITE_ACCEPTED
#define ON_WRITE_ACCEPTED(ch) do { } while (0)
#endif
#ifndef ON_WRITE_ATTEMPT
#define ON_WRITE_ATTEMPT(ch) do { } while (0)
#endif
#ifndef ON_UNIT
#define ON_UNIT(kind) do { } while (0)
#endif
#ifndef ON_HANDLER
#define ON_HANDLER(ci, kind) do { } while (0)
#endif
#ifndef ON_RT_HANDLER
/* read/test handler hook: may inspect and rewrite the response buffer */
#define ON_RT_HANDLER(ci, kind, data, data_size, max) do { } while (0)
#endif
#ifndef CODESET
/* terminal codes only: ERROR, DATA_OK, OK */
#define CODESET(b) ((b) % 3 == 0 ? CAT_RETURN_STATE_ERROR : (b) % 3 == 1 ? CAT_RETURN_STATE_DATA_OK : CAT_RETURN_STATE_OK)
#endif

#define UNIT_OK 1
#define UNIT_ERROR 2
#define UNIT_DATA 3

static struct {
        struct cat_object at;
        struct cat_descriptor desc;
        struct cat_command_group grp[2];
        struct cat_command_group *grps[2];
        struct cat_io_interface io;
        int k;                       /* current service step */
        int sched_r, sched_w;        /* runtime switches: honour S.sr / S.sw */
        int cut_done;                /* INPUT_CUT: the chunk boundary has been passed */
        unsigned in_pos;
        unsigned out_n;
        unsigned rc_n;
        /* variable callback log */
        unsigned vw_n[2], vr_n[2];
        size_t vw_size[2];
        /* handler log */
        unsigned hl_n;
        unsigned char hl_cmd[NH];
        unsigned char hl_kind[NH];
        /* online output unit parser */
        int u_state;                 /* 0 between units, 1 CR of leading nl, 2 payload, 3 CR of trailing nl */
        int u_crlf_lead, u_crlf_trail;
        unsigned u_len;
        unsigned units;
        int malformed;
        int last_unit_lead_crlf, last_unit_trail_crlf;
        int reads_attempted, writes_attempted;
} W;
/* descriptor objects that the library keeps pointers to are separate static objects, not members of W: a pointer that has
 * travelled through the event ring is a (object, symbolic offset) pair for the solver, and dereferencing it reads the whole
 * object it points into - which must therefore be small */
static struct cat_command G_cmd[M];
static struct cat_variable G_var[2];
static struct cat_variable G_novar[1]; /* commands without variables point here with var_num = 0 */
static char G_names[M][K + 1];
static uint8_t G_buf[CAPB_MAX];
static uint8_t G_ubuf[UB + 1];
static uint8_t G_out[OUTMAX];
static char G_pay[PAYMAX];
static uint8_t G_v0, G_v1;
static uint8_t G_wdata[CAPB_MAX]; /* copy of what the last write handler saw */
static size_t G_wsize, G_wargs;
static uint8_t G_rdata[CAPB_MAX]; /* copy of what the last read/test handler was given */
static size_t G_rsize, G_rmax;

static void world_reset(void)
{
        WORLD_ZERO(W);
        WORLD_ZERO(G_cmd);
        WORLD_ZERO(G_var);
        WORLD_ZERO(G_novar);
        WORLD_ZERO(G_names);
        WORLD_ZERO(G_buf);
        WORLD_ZERO(G_ubuf);
        WORLD_ZERO(G_out);
        WORLD_ZERO(G_pay);
        WORLD_ZERO(G_wdata);
        G_v0 = G_v1 = 0;
        G_wsize = G_wargs = 0;
        WORLD_ZERO(G_rdata);
        G_rsize = G_rmax = 0;
#ifdef WORLD_RESET_EXTRA
        WORLD_RESET_EXTRA;
#endif
}

static int legal_name_char(unsigned char c)
{
        return (c >= 'A' && c <= 'Z') || (c >= 'a' && c <= 'z') || (c >= '0' && c <= '9') || c == '+' || c == '#' ||
               c == '$' || c == '@' || c == '_' || c == '%' || c == '&';
}

static unsigned char up(unsigned char c) { return (c >= 'a' && c <= 'z') ? (unsigned char)(c - 32) : c; }

/* ---- input shapes: one class letter per byte -------------------------------------------- */
static int shape_ok(char cls, unsigned char c)
{
        switch (cls) {
        case 'A': return c == 'A' || c == 'a';
        case 'T': return c == 'T' || c == 't';
        case 'n': return legal_name_char(c);                       /* a name character, either case */
        case '?': return c == '?';
        case '=': return c == '=';
        case 'R': return c == '\r';
        case 'L': return c == '\n';
        case 'g': return !legal_name_char(c) && c != '?' && c != '=' && c != '\r' && c != '\n'; /* garbage in a name position */
        case 'a': return c != '\n' && c != '\r';                   /* argument byte */
        case 'x': return c != '\n';                                /* anything but LF */
        case 'd': return c >= '0' && c <= '9';
        case '+': return c == '+';
        case 'k': return (c >= 'A' && c < 'A' + M) || (c >= 'a' && c < 'a' + M);      /* command letter of the fixed table */
        case ',': return c == ',';
        case 'q': return c == '"';
        case '3': return c == 'C' || c == 'c';                      /* the third command of the fixed table */
        default:  return 1;                                        /* '*': any byte */
        }
}

/* ---- output unit parser ---------------------------------------------------------------- */
static void unit_done(void)
{
        int kind = UNIT_DATA;
        if (W.u_len == 2 && G_pay[0] == 'O' && G_pay[1] == 'K')
                kind = UNIT_OK;
        else if (W.u_len == 5 && G_pay[0] == 'E' && G_pay[1] == 'R' && G_pay[2] == 'R' && G_pay[3] == 'O' && G_pay[4] == 'R')
                kind = UNIT_ERROR;
        W.units++;
        W.last_unit_lead_crlf = W.u_crlf_lead;
        W.last_unit_trail_crlf = W.u_crlf_trail;
        W.u_state = 0;
        ON_UNIT(kind);
}

static void unit_feed(unsigned char c)
{
        switch (W.u_state) {
        case 0:
                W.u_len = 0;
                W.u_crlf_lead = 0;
                W.u_crlf_trail = 0;
                if (c == '\r') W.u_state = 1;
                else if (c == '\n') W.u_state = 2;
                else W.malformed = 1;
                break;
        case 1:
                if (c == '\n') { W.u_state = 2; W.u_crlf_lead = 1; }
                else W.malformed = 1;
                break;
        case 2:
                if (c == '\r') W.u_state = 3;
                else if (c == '\n') unit_done();
                else { if (W.u_len < PAYMAX) G_pay[W.u_len] = (char)c; W.u_len++; }
                break;
        default:
                if (c == '\n') { W.u_crlf_trail = 1; unit_done(); }
                else W.malformed = 1;
                break;
        }
}

/* ---- io --------------------------------------------------------------------------------- */
static int io_read(char *ch)
{
        W.reads_attempted++;
        ON_READ_ATTEMPT();
        if ((SYM_SCHED_R || W.sched_r) && (W.k >= 0 && W.k < N && S.sr[W.k]))
                return 0;
        if (W.in_pos >= S.in_len)
                return 0;
#ifdef INPUT_CUT
        /* the input arrives in two chunks: the first attempt to read byte INPUT_CUT is answered "not yet" - a refusal tied
         * to a byte boundary, not to a service call (it also falls between two reads of a caller that reads in a loop) */
        if (W.sched_r && !W.cut_done && W.in_pos == (unsigned)(INPUT_CUT)) {
                W.cut_done = 1;
                return 0;
        }
#endif
        *ch = (char)S.in[W.in_pos++];
        ON_READ_DELIVERED((unsigned char)*ch);
        return 1;
}

static int io_write(char ch)
{
        W.writes_attempted++;
        ON_WRITE_ATTEMPT((unsigned char)ch);
        if ((SYM_SCHED_W || W.sched_w) && (W.k >= 0 && W.k < N && S.sw[W.k]))
                return 0;
#ifndef NO_OUTLOG
        if (W.out_n < OUTMAX)
                G_out[W.out_n] = (uint8_t)ch;
#endif
        W.out_n++;
#ifndef NO_UNITS
        unit_feed((unsigned char)ch);
#endif
        ON_WRITE_ACCEPTED((unsigned char)ch);
        return 1;
}

/* ---- handlers --------------------------------------------------------------------------- */
static void hlog(const struct cat_command *cmd, int kind)
{
        unsigned ci = (unsigned)(cmd - G_cmd);
        if (W.hl_n < NH) { W.hl_cmd[W.hl_n] = (unsigned char)ci; W.hl_kind[W.hl_n] = (unsigned char)kind; }
        W.hl_n++;
        ON_HANDLER(ci, kind);
}

static cat_return_state next_code(void)
{
        unsigned char b = (W.rc_n < NRC) ? S.rc[W.rc_n] : 0;
#ifdef EVENT_CODE
        /* handlers of the event commands (index >= EVENT_FIRST_CMD) return a code fixed per job: a symbolic code would
         * keep every arm of the event FSM's return-code switch (incl. the excluded HOLD arm) alive in symbolic execution */
        if (W.hl_n > 0 && W.hl_n <= NH && W.hl_cmd[W.hl_n - 1] >= EVENT_FIRST_CMD)
                return (cat_return_state)(EVENT_CODE);
#endif
#ifdef STATELESS_CODES
        /* the handler's answer is a function of (command, kind), not of how many handlers ran before: needed when two
         * runs with a different number of earlier invocations are compared */
        if (W.hl_n > 0 && W.hl_n <= NH)
                b = S.rc[(W.hl_cmd[W.hl_n - 1] * 4u + W.hl_kind[W.hl_n - 1]) % NRC];
#endif
        W.rc_n++;
        return CODESET(b);
}

static cat_return_state h_write(const struct cat_command *cmd, const uint8_t *data, const size_t data_size, const size_t args_num)
{
        size_t i;
        hlog(cmd, CAT_CMD_TYPE_WRITE);
        for (i = 0; i < CAPB_MAX; i++)
                G_wdata[i] = (i <= data_size && i < CAPB_MAX) ? data[i] : 0;
        G_wsize = data_size;
        G_wargs = args_num;
        return next_code();
}
static void rcapture(const uint8_t *data, const size_t *data_size, size_t max_data_size)
{
        size_t i;
        for (i = 0; i < CAPB_MAX; i++)
                G_rdata[i] = (i <= *data_size && i < max_data_size) ? data[i] : 0;
        G_rsize = *data_size;
        G_rmax = max_data_size;
}
static cat_return_state h_read(const struct cat_command *cmd, uint8_t *data, size_t *data_size, const size_t max_data_size)
{
        hlog(cmd, CAT_CMD_TYPE_READ);
        rcapture(data, data_size, max_data_size);
        ON_RT_HANDLER((unsigned)(cmd - G_cmd), CAT_CMD_TYPE_READ, data, data_size, max_data_size);
        return next_code();
}
static cat_return_state h_run(const struct cat_command *cmd)
{
        hlog(cmd, CAT_CMD_TYPE_RUN);
        return next_code();
}
static cat_return_state h_test(const struct cat_command *cmd, uint8_t *data, size_t *data_size, const size_t max_data_size)
{
        hlog(cmd, CAT_CMD_TYPE_TEST);
        rcapture(data, data_size, max_data_size);
        ON_RT_HANDLER((unsigned)(cmd - G_cmd), CAT_CMD_TYPE_TEST, data, data_size, max_data_size);
        return next_code();
}

static int v_write(const struct cat_variable *var, const size_t write_size)
{
        unsigned vi = (unsigned)(var - G_var);
        if (vi < 2) { W.vw_n[vi]++; W.vw_size[vi] = write_size; return S.vrc[vi] ? 1 : 0; }
        return 0;
}
static int v_read(const struct cat_variable *var)
{
        unsigned vi = (unsigned)(var - G_var);
        if (vi < 2) { W.vr_n[vi]++; return S.vrc[vi] ? 1 : 0; }
        return 0;
}

#ifdef EVENT_CODE
/* handlers of the event commands return a code that is a syntactic constant: symbolic execution follows every case of a
 * switch on a symbolic value, feasible or not, and the HOLD case of the event loops overwrites the command FSM state */
static cat_return_state h_read_evt(const struct cat_command *cmd, uint8_t *data, size_t *data_size, const size_t max_data_size)
{
        hlog(cmd, CAT_CMD_TYPE_READ);
        rcapture(data, data_size, max_data_size);
        return (cat_return_state)(EVENT_CODE);
}
static cat_return_state h_test_evt(const struct cat_command *cmd, uint8_t *data, size_t *data_size, const size_t max_data_size)
{
        hlog(cmd, CAT_CMD_TYPE_TEST);
        rcapture(data, data_size, max_data_size);
        return (cat_return_state)(EVENT_CODE);
}
#endif

/* ---- table -------------------------------------------------------------------------------- */
static int cmd_enabled(unsigned i)
{
        unsigned g = (G == 2 && i >= G1_START) ? 1 : 0;
        return !(S.fl[i] & F_DISABLE) && !S.gd[g];
}

/* total working-buffer size: a compile-time constant when the job fixes it (CAPB_MIN == CAPB_MAX) - the event half of a
 * shared buffer then starts at a concrete offset, which matters as soon as the event FSM formats into it */
#define CAPB_VALUE ((CAPB_MIN == CAPB_MAX) ? (unsigned)(CAPB_MIN) : (unsigned)S.capb)
static unsigned cmd_half_cap(void)
{
        return SEPARATE_UBUF ? CAPB_VALUE : (unsigned)(CAPB_VALUE >> 1);
}

static void world_assume(void)
{
        unsigned i, j;
        ASSUME(S.in_len <= L);
        ASSUME(S.capb >= CAPB_MIN && S.capb <= CAPB_MAX);
        for (i = 0; i < M; i++) {
#if SYM_NAMES
                ASSUME(S.nl[i] >= 1 && S.nl[i] <= K);
                for (j = 0; j < K; j++)
                        if (j < S.nl[i])
                                ASSUME(legal_name_char(S.nm[i][j]));
#else
                /* fixed table: +A, +B, +C, ... */
                ASSUME(S.nl[i] == 2 && S.nm[i][0] == '+' && S.nm[i][1] == 'A' + i);
                (void)j;
#endif
#if SYM_FLAGS
                ASSUME(S.fl[i] < 16);
#else
                ASSUME(S.fl[i] == 0);
#endif
                ASSUME(S.hm[i] < 16);
                /* cat_init's own requirement for implicit-write commands */
                if (S.fl[i] & F_IMPLICIT)
                        ASSUME((S.hm[i] & (H_READ | H_RUN | H_TEST)) == 0);
        }
        ASSUME(S.gd[0] <= 1 && S.gd[1] <= 1);
        if (G == 1)
                ASSUME(S.gd[1] == 0);
#if !SYM_FLAGS
        ASSUME(S.gd[0] == 0 && S.gd[1] == 0);
#endif
        ASSUME(S.vacc[0] <= 2 && S.vacc[1] <= 2);
        ASSUME(S.vcb[0] <= 3 && S.vcb[1] <= 3 && S.vrc[0] <= 1 && S.vrc[1] <= 1);
}

static void world_build(void)
{
        unsigned i, j;
        for (i = 0; i < M; i++) {
                for (j = 0; j < K; j++)
                        G_names[i][j] = (j < S.nl[i]) ? (char)S.nm[i][j] : 0;
                G_names[i][K] = 0;
                G_cmd[i].name = G_names[i];
                G_cmd[i].write = (S.hm[i] & H_WRITE) ? h_write : NULL;
                G_cmd[i].read = (S.hm[i] & H_READ) ? h_read : NULL;
                G_cmd[i].run = (S.hm[i] & H_RUN) ? h_run : NULL;
                G_cmd[i].test = (S.hm[i] & H_TEST) ? h_test : NULL;
#ifdef EVENT_CODE
                if (i >= EVENT_FIRST_CMD) {
                        G_cmd[i].read = (S.hm[i] & H_READ) ? h_read_evt : NULL;
                        G_cmd[i].test = (S.hm[i] & H_TEST) ? h_test_evt : NULL;
                }
#endif
                G_cmd[i].disable = (S.fl[i] & F_DISABLE) != 0;
                G_cmd[i].only_test = (S.fl[i] & F_ONLY_TEST) != 0;
                G_cmd[i].implicit_write = (S.fl[i] & F_IMPLICIT) != 0;
                G_cmd[i].need_all_vars = (S.fl[i] & F_NEED_ALL) != 0;
                /* "no variables" is expressed as var_num == 0 on a valid array (a NULL var pointer makes
                 * the symbolic execution of every var-> access explore an invalid object) */
                G_cmd[i].var = G_novar;
                G_cmd[i].var_num = 0;
        }
        vf_cmd_base = G_cmd;
        vf_cmd_n = M;
        /* variables: command 1 owns a uint8, command 2 an int8 (when they exist) */
        G_var[0].type = CAT_VAR_UINT_DEC; G_var[0].data = &G_v0; G_var[0].data_size = 1; G_var[0].access = (cat_var_access)S.vacc[0]; G_var[0].name = "u";
        G_var[1].type = CAT_VAR_INT_DEC; G_var[1].data = &G_v1; G_var[1].data_size = 1; G_var[1].access = (cat_var_access)S.vacc[1]; G_var[1].name = "i";
        G_var[0].write = (S.vcb[0] & 1) ? v_write : NULL; G_var[0].read = (S.vcb[0] & 2) ? v_read : NULL;
        G_var[1].write = (S.vcb[1] & 1) ? v_write : NULL; G_var[1].read = (S.vcb[1] & 2) ? v_read : NULL;
        G_v0 = S.vinit[0];
        G_v1 = S.vinit[1];
#if NVAR >= 1
        if (M > 1) { G_cmd[1].var = &G_var[0]; G_cmd[1].var_num = 1; }
#endif
#if NVAR >= 2
        if (M > 2) { G_cmd[2].var = &G_var[1]; G_cmd[2].var_num = 1; }
#endif
        W.grp[0].cmd = &G_cmd[0];
        W.grp[0].cmd_num = (G == 2) ? G1_START : M;
        W.grp[0].disable = S.gd[0] != 0;
        W.grps[0] = &W.grp[0];
        if (G == 2) {
                W.grp[1].cmd = &G_cmd[G1_START];
                W.grp[1].cmd_num = M - G1_START;
                W.grp[1].disable = S.gd[1] != 0;
                W.grps[1] = &W.grp[1];
        }
        W.desc.cmd_group = W.grps;
        W.desc.cmd_group_num = G;
        W.desc.buf = G_buf;
        W.desc.buf_size = CAPB_VALUE;
#if SEPARATE_UBUF
        W.desc.unsolicited_buf = G_ubuf;
        W.desc.unsolicited_buf_size = UB;
#endif
        W.io.read = io_read;
        W.io.write = io_write;
        cat_init(&W.at, &W.desc, &W.io, NULL);
}

/* IDLE as reset_state leaves it: state, cr_flag, hold_state_flag, cmd, cmd_type are defined; every other field
 * and the working buffer are scratch left over from any earlier line */
static void world_junk_idle(void)
{
        unsigned i;
        W.at.index = vf_u32(&S.jk[0]);
        W.at.partial_cntr = vf_u32(&S.jk[4]);
        W.at.length = vf_u32(&S.jk[8]);
        W.at.position = vf_u32(&S.jk[12]);
        W.at.write_size = vf_u32(&S.jk[16]);
        W.at.current_char = (char)S.jk[20];
        W.at.hold_exit_status = (int)(signed char)S.jk[21];
        W.at.write_state = (int)S.jk[22];
        W.at.write_state_after = (cat_state)(signed char)S.jk[23];
        W.at.var = (S.jk[24] & 1) ? &G_var[S.jk[24] >> 7] : NULL;
        W.at.write_buf = (S.jk[25] & 1) ? (const char *)G_buf : NULL;
        for (i = 0; i < CAPB_MAX; i++)
                G_buf[i] = S.jbuf[i];
}

/* explicit re-initialisation for a second run inside one scenario (twin runs) */
static void world_clear_run(void)
{
        unsigned i;
        W.k = 0; W.in_pos = 0; W.out_n = 0; W.rc_n = 0; W.hl_n = 0; W.cut_done = 0;
        W.vw_n[0] = W.vw_n[1] = W.vr_n[0] = W.vr_n[1] = 0; W.vw_size[0] = W.vw_size[1] = 0;
        W.u_state = 0; W.u_crlf_lead = W.u_crlf_trail = 0; W.u_len = 0; W.units = 0; W.malformed = 0;
        W.last_unit_lead_crlf = W.last_unit_trail_crlf = 0; W.reads_attempted = W.writes_attempted = 0;
        for (i = 0; i < NH; i++) { W.hl_cmd[i] = 0; W.hl_kind[i] = 0; }
        for (i = 0; i < CAPB_MAX; i++) { G_buf[i] = 0; G_wdata[i] = 0; G_rdata[i] = 0; }
        for (i = 0; i < OUTMAX; i++) G_out[i] = 0;
        G_wsize = G_wargs = G_rsize = G_rmax = 0;
        W.at.index = W.at.partial_cntr = W.at.length = W.at.position = W.at.write_size = 0;
        W.at.var = NULL; W.at.write_buf = NULL; W.at.write_state = 0; W.at.write_state_after = CAT_STATE_IDLE; W.at.current_char = 0;
}

#ifndef __CPROVER__
static const char vf_alpha[] = "ATat+#$@_%&09zZbB";
static void world_sample(void)
{
        unsigned i, j;
        for (i = 0; i < M; i++) {
                S.nl[i] = (unsigned char)(1 + rnd(K));
                for (j = 0; j < K; j++)
                        S.nm[i][j] = rnd(3) ? RND_PICK("+ABab") : rnd_pick(vf_alpha, sizeof(vf_alpha) - 1);
#if !SYM_NAMES
                S.nl[i] = 2; S.nm[i][0] = '+'; S.nm[i][1] = (unsigned char)('A' + i);
#endif
                S.fl[i] = SYM_FLAGS ? (unsigned char)(rnd(3) ? 0 : rnd(16)) : 0;
                S.hm[i] = (unsigned char)(rnd(4) ? 15 : rnd(16));
                if (S.fl[i] & F_IMPLICIT) S.hm[i] &= H_WRITE;
        }
        S.gd[0] = (unsigned char)(SYM_FLAGS && rnd(8) == 0);
        S.gd[1] = (unsigned char)(SYM_FLAGS && G == 2 && rnd(4) == 0);
        S.capb = (unsigned char)(CAPB_MIN + rnd(CAPB_MAX - CAPB_MIN + 1));
        for (i = 0; i < NRC; i++) S.rc[i] = (unsigned char)rnd(256);
        for (i = 0; i < N; i++) { S.sr[i] = (unsigned char)(rnd(4) == 0); S.sw[i] = (unsigned char)(rnd(4) == 0); }
        rnd_bytes(S.vinit, sizeof(S.vinit));
        S.vacc[0] = (unsigned char)(rnd(3) ? 0 : rnd(3));
        S.vacc[1] = (unsigned char)(rnd(3) ? 0 : rnd(3));
        S.vcb[0] = (unsigned char)rnd(4); S.vcb[1] = (unsigned char)rnd(4);
        S.vrc[0] = (unsigned char)(rnd(5) == 0); S.vrc[1] = (unsigned char)(rnd(5) == 0);
        rnd_bytes(S.jk, sizeof(S.jk));
        rnd_bytes(S.jbuf, sizeof(S.jbuf));
}

static unsigned char shape_sample(char cls, unsigned ci, unsigned ni)
{
        unsigned char c;
        switch (cls) {
        case 'A': return rnd(2) ? 'A' : 'a';
        case 'T': return rnd(2) ? 'T' : 't';
        case 'n':
                c = (ni < S.nl[ci] && rnd(5)) ? S.nm[ci][ni] : rnd_pick(vf_alpha, sizeof(vf_alpha) - 1);
                if (rnd(2)) c = (c >= 'a' && c <= 'z') ? (unsigned char)(c - 32) : (c >= 'A' && c <= 'Z') ? (unsigned char)(c + 32) : c;
                return c;
        case '?': return '?';
        case '=': return '=';
        case 'R': return '\r';
        case 'L': return '\n';
        case 'd': return (unsigned char)('0' + rnd(10));
        case '+': return '+';
        case ',': return ',';
        case 'q': return '"';
        case 'k': return (unsigned char)((rnd(2) ? 'A' : 'a') + rnd(M));
        case '3': return rnd(2) ? 'C' : 'c';
        default:
                for (;;) {
                        unsigned r = rnd(10);
                        c = r < 3 ? RND_PICK("0123456789") : r < 5 ? '\r' : r < 8 ? RND_PICK("-,\"\\x?=AT+ \nZz") : (unsigned char)rnd(256);
                        if (shape_ok(cls, c)) return c;
                }
        }
}

/* a line-shaped random input: AT + name-ish + suffix + args + LF, with noise */
static unsigned sample_line(unsigned char *dst, unsigned max)
{
        unsigned p = 0, i, n;
        unsigned ci = rnd(M);
        if (max == 0) return 0;
        if (rnd(12) == 0) { dst[p++] = rnd(2) ? '\r' : (unsigned char)rnd(256); }
        if (p < max && rnd(10)) dst[p++] = rnd(8) ? 'A' : 'a';
        if (p < max && rnd(10)) dst[p++] = rnd(8) ? 'T' : 't';
        n = rnd(4) ? S.nl[ci] : rnd(K + 2);
        for (i = 0; i < n && p < max; i++) {
                unsigned char c = (i < S.nl[ci] && rnd(6)) ? S.nm[ci][i] : rnd_pick(vf_alpha, sizeof(vf_alpha) - 1);
                if (rnd(2)) c = (c >= 'a' && c <= 'z') ? (unsigned char)(c - 32) : (c >= 'A' && c <= 'Z') ? (unsigned char)(c + 32) : c;
                dst[p++] = c;
        }
        switch (rnd(6)) {
        case 0: if (p < max) dst[p++] = '?'; break;
        case 1: if (p < max) dst[p++] = '='; if (p < max) dst[p++] = '?'; break;
        case 2: case 3:
                if (p < max) dst[p++] = '=';
                n = rnd(5);
                for (i = 0; i < n && p < max; i++) dst[p++] = rnd(6) ? RND_PICK("0123456789-,\"\\x?=") : (unsigned char)rnd(256);
                break;
        default: break;
        }
        if (p < max && rnd(4) == 0) dst[p++] = '\r';
        if (p < max) dst[p++] = '\n';
        for (i = 0; i + 1 < p; i++) if (dst[i] == '\n' && rnd(4)) dst[i] = 'x';
        return p;
}
#endif
