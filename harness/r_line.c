/*
 * r_line.c - E3 guided run for C01 (one result code per line, in order, no read-ahead), also
 * carrying the C15 liveness bound, the C20 line-ending rule and the C18 busy sampling for plain
 * command traffic.
 *
 * Input: L symbolic bytes (SHAPE 0) or a shaped line (SHAPE 1):
 *        [Aa][Tt] name{NLEN bytes, any value} suffix(SUFFIX 0 none, 1 '?', 2 '=', 3 '=?') args{ARGN bytes != LF} LF tail{L2 any bytes}
 * Table: M commands with symbolic names (legal alphabet, length 1..K), flags and handler subsets;
 *        command 1 owns a uint8 variable, command 2 an int8 variable (symbolic access modes).
 * Handlers return terminal codes only (the property's premise): ERROR / DATA_OK / OK.
 * JUNK=1 starts from the junk-idle state (every scratch field and the buffers havocked) instead of
 * a fresh cat_init.
 */
#ifndef JUNK
#define JUNK 0
#endif
/* SHAPESTR: one class letter per input byte (see shape_ok); absent = L free bytes */


static struct {
        int owed;              /* non-blank lines consumed whose result code is not yet completely out */
        int line_nonblank;     /* current input line has a non-CR byte */
        int line_cr;           /* a CR was consumed after the first non-blank byte of the current line */
        int owed_crlf;         /* line ending expected for the answer of the owed line */
        int lines, codes;
        int bad_readahead, bad_unit, bad_ending, bad_busy_idle;
} MON;

#define WORLD_RESET_EXTRA WORLD_ZERO(MON)
#define ON_READ_DELIVERED(ch) mon_read(ch)
#define ON_UNIT(kind) mon_unit(kind)
static void mon_read(unsigned char ch);
static void mon_unit(int kind);

#define NO_OUTLOG   /* this harness never looks at the raw output log */
#include "world.h"

static void mon_read(unsigned char ch)
{
        if (MON.owed != 0)
                MON.bad_readahead = 1;
        if (ch == '\n') {
                if (MON.line_nonblank) {
                        MON.owed++;
                        MON.lines++;
                        MON.owed_crlf = MON.line_cr;
                }
                MON.line_nonblank = 0;
                MON.line_cr = 0;
        } else if (ch == '\r') {
                if (MON.line_nonblank)
                        MON.line_cr = 1;
        } else {
                MON.line_nonblank = 1;
        }
}

static void mon_unit(int kind)
{
        if (MON.owed != 1)
                MON.bad_unit = 1; /* output without an outstanding line */
        if (W.last_unit_lead_crlf != MON.owed_crlf || W.last_unit_trail_crlf != MON.owed_crlf)
                MON.bad_ending = 1;
        if (kind == UNIT_OK || kind == UNIT_ERROR) {
                MON.codes++;
                if (MON.owed > 0)
                        MON.owed--;
        }
}

static void junk_idle(void)
{
#if JUNK
        world_junk_idle();
#endif
}

static void scen_run(void)
{
        int k;
        cat_status r = CAT_STATUS_BUSY;
        world_assume();
#ifdef SHAPESTR
        ASSUME(S.in_len == L);
        {
                static const char shape[] = SHAPESTR;
                unsigned i;
                for (i = 0; i < L; i++)
                        ASSUME(shape_ok(shape[i], S.in[i]));
        }
#endif
        world_build();
        junk_idle();

        for (k = 0; k < N; k++) {
                cat_status busy;
                W.k = k;
                r = hinted_service(0, k, &W.at);
                /* C18 (plain traffic): idle report only when nothing is owed, no partial line, no open unit */
                busy = cat_is_busy(&W.at);
                if (busy == CAT_STATUS_OK && (MON.owed != 0 || MON.line_nonblank || W.u_state != 0))
                        MON.bad_busy_idle = 1;
        }

        CHK(C01, !MON.bad_readahead, "no input byte is consumed while a line's result code is still owed");
        CHK(C01, !MON.bad_unit, "output only for an outstanding line, at most one line outstanding");
        CHK(C01, !W.malformed, "output is a sequence of newline-framed units");
        CHK(C01, MON.owed == 0 && MON.codes == MON.lines, "every non-blank line has exactly one result code");
        CHK(C01, W.u_state == 0, "no unit left open");
        CHK(C01, W.in_pos == S.in_len, "all input consumed");
        CHK(C15, r == CAT_STATUS_OK && W.at.state != CAT_STATE_FLUSH_IO_WRITE, "quiescent within the step bound");
        CHK(C20, !MON.bad_ending, "newlines of the response mirror the CR of the request line");
        CHK(C18, !MON.bad_busy_idle, "cat_is_busy never reports idle with a partial line, an owed result code or an open unit");
        CHK(C18, cat_is_busy(&W.at) == CAT_STATUS_OK || MON.line_nonblank, "cat_is_busy reports idle once quiescent with no partial line");

        WITNESS(MON.codes >= 1, "a-result-code");
        WITNESS(W.units >= 2, "data-and-result-code");
        WITNESS(W.hl_n >= 1, "a-handler-ran");
#ifndef SHAPESTR
        WITNESS(MON.codes >= 2, "two-lines-answered");
#endif
}

#ifndef __CPROVER__
static void scen_sample(void)
{
        unsigned p = 0, i;
        world_sample();
#ifndef SHAPESTR
        while (p < L) {
                if (rnd(5) == 0) { S.in[p++] = (unsigned char)rnd(256); continue; }
                p += sample_line(&S.in[p], L - p);
                if (rnd(4) == 0) break;
        }
        S.in_len = (unsigned char)(rnd(3) ? p : rnd(p + 1));
#else
        {
                static const char shape[] = SHAPESTR;
                unsigned ci = rnd(M), ni = 0;
                (void)i;
                for (p = 0; p < L; p++) {
                        S.in[p] = shape_sample(shape[p], ci, ni);
                        if (shape[p] == 'n') ni++;
                }
                S.in_len = L;
        }
#endif
}
#endif
