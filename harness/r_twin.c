/*
 * r_twin.c - E3 self-composition (two guided runs of the same scenario, compared):
 *
 *   MODE 0 (C20)  run A from a fresh cat_init, run B from the junk-idle state (every scratch field and
 *                 the whole working buffer havocked): the answer to a line depends on that line only.
 *   MODE 1 (C12)  run A with every read/write ready, run B under a symbolic readiness schedule with at
 *                 most R refusals of each kind: same output bytes, same handler invocations.
 *   MODE 2 (C08)  the two runs differ only in the stored contents of write-only variables:
 *                 no output byte may depend on them (non-interference).
 *
 *   MODE 3 (C20)  concatenation: the input is two lines (the first L1 bytes are line 1); run A feeds line 2 alone to a
 *                 fresh parser, run B feeds line 1 then line 2 to one parser: what B emits after line 1's answer
 *                 (= after the first byte of line 2 has been consumed) must equal A's output, and the handler
 *                 invocations / variable effects of line 2 must be the same.
 *
 * Compared: the complete output byte stream, the handler log (command, kind), what the write handler
 * was shown, variable callback counts and the final variable values.
 */
#ifndef MODE
#define MODE 0
#endif
#ifndef R
#define R 2
#endif
#ifndef L1
#define L1 0            /* MODE 3: length of the first line */
#endif
#define NH 4
#if MODE == 3
#define STATELESS_CODES
#define SYM_NAMES 0      /* fixed names +A +B +C: the concatenation runs are long (two lines, two lanes) */
#ifndef OUTMAX
#define OUTMAX 48
#endif
#endif
#if MODE == 1
#define SCEN_EXTRA unsigned char v2[2]; unsigned char cut;
#define INPUT_CUT S.cut          /* symbolic chunk boundary 0..L (L = no cut) */
#else
#define SCEN_EXTRA unsigned char v2[2];
#endif
static void twin_reset(void);
#define WORLD_RESET_EXTRA twin_reset()
#include "world.h"

#ifndef SHAPESTR
#error "r_twin needs SHAPESTR"
#endif

static struct {
        unsigned out_n, hl_n, units;
        unsigned char hl_cmd[NH], hl_kind[NH];
        unsigned vw_n[2], vr_n[2];
        size_t vw_size[2];
        uint8_t v0, v1;
        size_t wsize, wargs;
        int malformed, u_state;
        cat_status last;
} A;
static uint8_t A_out[OUTMAX];
static uint8_t A_wdata[CAPB_MAX];

static void twin_reset(void) { WORLD_ZERO(A); WORLD_ZERO(A_out); WORLD_ZERO(A_wdata); }

static cat_status run_lane(int lane, int steps)
{
        int k;
        cat_status r = CAT_STATUS_BUSY;
        for (k = 0; k < steps; k++) {
                W.k = k;
                r = hinted_service(lane, k, &W.at);
        }
        return r;
}

static void scen_run(void)
{
        static const char shape[] = SHAPESTR;
        unsigned i, zr = 0, zw = 0;
        cat_status rb;

        world_assume();
        ASSUME(S.in_len == L);
        for (i = 0; i < L; i++)
                ASSUME(shape_ok(shape[i], S.in[i]));
#if MODE == 1
        for (i = 0; i < N; i++) {
                ASSUME(S.sr[i] <= 1 && S.sw[i] <= 1);
                if (S.sr[i]) zr++;
                if (S.sw[i]) zw++;
        }
        ASSUME(zr <= R && zw <= R);
        ASSUME(S.cut <= L);
#endif
        (void)zr; (void)zw;

#if MODE == 3
        {
                /* run B first: both lines on one parser; remember how much had been emitted / logged when line 2's first byte
                 * was consumed, and the variable values line 1 left behind */
                int k2;
                unsigned mark_out = 0, mark_hl = 0, marked = 0, b_out_n, b_hl_n;
                uint8_t v0_mid = 0, v1_mid = 0, b_v0, b_v1;
                unsigned vw_mid[2] = { 0, 0 }, vr_mid[2] = { 0, 0 }, b_vw[2], b_vr[2];
                unsigned char b_hl_cmd[NH], b_hl_kind[NH];
                ASSUME(S.in[L1 - 1] == '\n');
#ifdef PIN_TABLE
                /* quick-tier variants: most of the table is pinned; symbolic: the argument bytes, the commands addressed by both
                 * lines, the handler codes, the variable value and
                 *   PIN_TABLE 1: +C implicit-write with a write handler (over-long implicit write as first line)
                 *   PIN_TABLE 2: the test-only flag of every command (write syntax on a test-only command as first line) */
#if PIN_TABLE == 2
                ASSUME((S.fl[0] & ~F_ONLY_TEST) == 0 && (S.fl[1] & ~F_ONLY_TEST) == 0 && (S.fl[2] & ~F_ONLY_TEST) == 0 && S.hm[0] == 15 && S.hm[1] == 15 && S.hm[2] == 15);
#else
                ASSUME(S.fl[0] == 0 && S.fl[1] == 0 && S.fl[2] == F_IMPLICIT && S.hm[0] == 15 && S.hm[1] == 15 && S.hm[2] == H_WRITE);
#endif
                ASSUME(S.gd[0] == 0 && S.gd[1] == 0 && S.vacc[0] == 0 && S.vacc[1] == 0 && S.vcb[0] == 0 && S.vcb[1] == 0);
#endif
                world_build();
                rb = CAT_STATUS_BUSY;
                for (k2 = 0; k2 < N; k2++) {
                        W.k = k2;
                        if (!marked && W.in_pos >= L1 + 1) {
                                /* the first byte of line 2 has just been consumed (it cannot cause output by itself): by C01 everything
                                 * emitted so far is the answer to line 1 */
                                marked = 1; mark_out = W.out_n; mark_hl = W.hl_n; v0_mid = G_v0; v1_mid = G_v1;
                                vw_mid[0] = W.vw_n[0]; vw_mid[1] = W.vw_n[1]; vr_mid[0] = W.vr_n[0]; vr_mid[1] = W.vr_n[1];
                        }
                        rb = hinted_service(1, k2, &W.at);
                }
                CHK(C20, marked, "line 1 was never finished");
                CHK(C20, rb == CAT_STATUS_OK && W.in_pos == S.in_len && W.u_state == 0, "both lines completely processed within the step bound");
                b_out_n = W.out_n; b_hl_n = W.hl_n; b_v0 = G_v0; b_v1 = G_v1;
                for (i = 0; i < 2; i++) { b_vw[i] = W.vw_n[i]; b_vr[i] = W.vr_n[i]; }
                for (i = 0; i < NH; i++) { b_hl_cmd[i] = W.hl_cmd[i]; b_hl_kind[i] = W.hl_kind[i]; }
                for (i = 0; i < OUTMAX; i++) A_out[i] = G_out[i];

                /* run A: line 2 alone on a fresh parser, variables as line 1 left them */
                world_clear_run();
                world_build();
                G_v0 = v0_mid; G_v1 = v1_mid;
                W.in_pos = L1;
                A.last = run_lane(0, N);
                CHK(C20, A.last == CAT_STATUS_OK && W.in_pos == S.in_len && W.u_state == 0, "line 2 alone completely processed within the step bound");
                CHK(C20, b_out_n == mark_out + W.out_n, "answer to line 2 after line 1 has a different length than the answer to line 2 alone");
                for (i = 0; i < OUTMAX; i++)
                        if (i < W.out_n && mark_out + i < OUTMAX)
                                CHK(C20, A_out[mark_out + i] == G_out[i], "answer to line 2 depends on the earlier line");
                CHK(C20, b_out_n <= OUTMAX, "output log overflow");
                CHK(C20, b_hl_n == mark_hl + W.hl_n, "line 2 invokes a different number of handlers after line 1");
                for (i = 0; i < NH; i++)
                        if (i < W.hl_n && mark_hl + i < NH)
                                CHK(C20, b_hl_cmd[mark_hl + i] == W.hl_cmd[i] && b_hl_kind[mark_hl + i] == W.hl_kind[i], "line 2 invokes different handlers after line 1");
                CHK(C20, G_v0 == b_v0 && G_v1 == b_v1, "line 2 leaves different variable values after line 1");
                CHK(C20, b_vw[0] - vw_mid[0] == W.vw_n[0] && b_vw[1] - vw_mid[1] == W.vw_n[1] && b_vr[0] - vr_mid[0] == W.vr_n[0] && b_vr[1] - vr_mid[1] == W.vr_n[1],
                    "line 2 runs variable callbacks a different number of times after line 1");
                WITNESS(W.hl_n >= 1 && mark_hl == 0, "line2-handler-ran-line1-none");
                WITNESS(mark_out >= 4 && W.out_n >= 4, "both-lines-answered");
                return;
        }
#endif
        /* ---- run A ---------------------------------------------------------------------------- */
        world_build();

        A.last = run_lane(0, N - 2 * R * (MODE == 1));
        A.out_n = W.out_n; A.hl_n = W.hl_n; A.units = W.units; A.malformed = W.malformed; A.u_state = W.u_state;
        for (i = 0; i < NH; i++) { A.hl_cmd[i] = W.hl_cmd[i]; A.hl_kind[i] = W.hl_kind[i]; }
        for (i = 0; i < 2; i++) { A.vw_n[i] = W.vw_n[i]; A.vr_n[i] = W.vr_n[i]; A.vw_size[i] = W.vw_size[i]; }
        A.v0 = G_v0; A.v1 = G_v1; A.wsize = G_wsize; A.wargs = G_wargs;
        for (i = 0; i < OUTMAX; i++) A_out[i] = G_out[i];
        for (i = 0; i < CAPB_MAX; i++) A_wdata[i] = G_wdata[i];

        /* ---- run B ---------------------------------------------------------------------------- */
        world_clear_run();
        world_build();
#if MODE == 0
        world_junk_idle();
#elif MODE == 1
        W.sched_r = 1; W.sched_w = 1;
#elif MODE == 2
        if (S.vacc[0] == CAT_VAR_ACCESS_WRITE_ONLY) G_v0 = S.v2[0];
        if (S.vacc[1] == CAT_VAR_ACCESS_WRITE_ONLY) G_v1 = S.v2[1];
#endif
        rb = run_lane(1, N);

        /* ---- compare -------------------------------------------------------------------------- */
#if MODE == 0
#define TWIN(c, msg) CHK(C20, c, msg)
#elif MODE == 1
#define TWIN(c, msg) CHK(C12, c, msg)
#else
#define TWIN(c, msg) CHK(C08, c, msg)
#endif
        TWIN(A.last == CAT_STATUS_OK && rb == CAT_STATUS_OK && W.in_pos == S.in_len && W.u_state == 0 && A.u_state == 0, "both runs completely processed within the step bound");
        TWIN(W.out_n == A.out_n, "the two runs emit a different number of bytes");
        for (i = 0; i < OUTMAX; i++)
                if (i < A.out_n)
                        TWIN(G_out[i] == A_out[i], "the two runs emit different bytes");
        TWIN(W.out_n <= OUTMAX, "output log overflow");
#if MODE != 2
        TWIN(W.hl_n == A.hl_n, "the two runs invoke a different number of handlers");
        for (i = 0; i < NH; i++)
                if (i < A.hl_n)
                        TWIN(W.hl_cmd[i] == A.hl_cmd[i] && W.hl_kind[i] == A.hl_kind[i], "the two runs invoke different handlers");
        TWIN(G_wsize == A.wsize && G_wargs == A.wargs, "the write handler was shown different arguments");
        for (i = 0; i < CAPB_MAX; i++)
                TWIN(G_wdata[i] == A_wdata[i], "the write handler was shown different argument bytes");
        TWIN(W.vw_n[0] == A.vw_n[0] && W.vw_n[1] == A.vw_n[1] && W.vr_n[0] == A.vr_n[0] && W.vr_n[1] == A.vr_n[1], "variable callbacks ran a different number of times");
        TWIN(W.vw_size[0] == A.vw_size[0] && W.vw_size[1] == A.vw_size[1], "a variable write callback was told a different length in the two runs");
        TWIN(G_v0 == A.v0 && G_v1 == A.v1, "the two runs leave different variable values");
#endif
        WITNESS(A.out_n >= 8, "two-units-of-output");
        WITNESS(A.hl_n >= 1, "a-handler-ran");
#if MODE == 1
        WITNESS(zr == R && zw == R, "R-refusals-of-each-kind");
        WITNESS(S.cut > 0 && S.cut < L && W.cut_done, "input-cut-inside-the-line");
#endif
#if MODE == 2
        WITNESS(S.vacc[0] == CAT_VAR_ACCESS_WRITE_ONLY && S.v2[0] != S.vinit[0] && A.out_n >= 8, "write-only-contents-differ-with-data-output");
#endif
}

#ifndef __CPROVER__
static void scen_sample(void)
{
        static const char shape[] = SHAPESTR;
        unsigned p, ci = rnd(M), ni = 0, left;
        world_sample();
        for (p = 0; p < L; p++) {
                S.in[p] = shape_sample(shape[p], ci, ni);
                if (shape[p] == 'n') ni++;
        }
        S.in_len = L;
        for (p = 0; p < N; p++) S.sr[p] = S.sw[p] = 0;
        left = rnd(R + 1); while (left--) S.sr[rnd(N)] = 1;
        left = rnd(R + 1); while (left--) S.sw[rnd(N)] = 1;
        S.v2[0] = (unsigned char)rnd(256); S.v2[1] = (unsigned char)rnd(256);
#if MODE == 1
        S.cut = (unsigned char)rnd(L + 1);
#endif
#ifdef PIN_TABLE
#if PIN_TABLE == 2
        S.fl[0] = (unsigned char)(rnd(2) ? F_ONLY_TEST : 0); S.fl[1] = (unsigned char)(rnd(2) ? F_ONLY_TEST : 0); S.fl[2] = (unsigned char)(rnd(2) ? F_ONLY_TEST : 0);
        S.hm[0] = S.hm[1] = S.hm[2] = 15;
#else
        S.fl[0] = S.fl[1] = 0; S.fl[2] = F_IMPLICIT; S.hm[0] = S.hm[1] = 15; S.hm[2] = H_WRITE;
#endif
        S.gd[0] = S.gd[1] = 0; S.vacc[0] = S.vacc[1] = 0; S.vcb[0] = S.vcb[1] = 0;
#endif
        if (MODE == 2 && rnd(2)) S.vacc[rnd(2)] = 2;
}
#endif
