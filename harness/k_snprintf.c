/*
 * k_snprintf.c - validation of the CBMC snprintf model (stubs_cbmc.h) against libc: the same table of
 * (format, value, buffer size) -> (text, return value) is checked under CBMC (model) and natively
 * (libc); both must agree with the expected strings, hence with each other on the table.
 */
struct scen { unsigned char pad; };
#define SCEN_DEFINED
#include "common.h"
#ifndef __CPROVER__
#define verif_snprintf snprintf
#endif

static void world_reset(void) { }

static void one(const char *fmt, uint32_t val, size_t n, const char *expect_full, int idx)
{
        char buf[24];
        char fstr[8];
        size_t i, flen = strlen(expect_full), copied;
        int r;
        (void)idx;
        for (i = 0; i < 24; i++) buf[i] = 0x55;
        for (i = 0; i < 8; i++) fstr[i] = (i < strlen(fmt) + 1) ? fmt[i] : 0;
        r = verif_snprintf(buf, n, fstr, val);
        CHECK(r == (int)flen, "snprintf-validation: return value is the full length");
        copied = (n == 0) ? 0 : (flen < n ? flen : n - 1);
        for (i = 0; i < 24; i++) {
                if (i < copied) CHECK(buf[i] == expect_full[i], "snprintf-validation: text");
                else if (i == copied && n > 0) CHECK(buf[i] == 0, "snprintf-validation: terminator");
                else CHECK(buf[i] == 0x55, "snprintf-validation: nothing written beyond the size");
        }
}

static void scen_run(void)
{
        one("%d", 0, 16, "0", 0);
        one("%d", 7, 16, "7", 1);
        one("%d", (uint32_t)-1, 16, "-1", 2);
        one("%d", 127, 16, "127", 3);
        one("%d", (uint32_t)-128, 16, "-128", 4);
        one("%d", 32767, 16, "32767", 5);
        one("%d", (uint32_t)-32768, 16, "-32768", 6);
        one("%d", 2147483647u, 16, "2147483647", 7);
        one("%d", 2147483648u, 16, "-2147483648", 8);
        one("%d", 1000000000u, 16, "1000000000", 9);
        one("%d", (uint32_t)-1000000000, 16, "-1000000000", 10);
        one("%d", 12345, 4, "12345", 11);          /* truncated */
        one("%d", 12345, 6, "12345", 12);          /* exactly fits */
        one("%d", 12345, 5, "12345", 13);          /* one short */
        one("%d", 5, 0, "5", 14);                  /* size 0: nothing written */
        one("%u", 0, 16, "0", 15);
        one("%u", 255, 16, "255", 16);
        one("%u", 65535, 16, "65535", 17);
        one("%u", 4294967295u, 16, "4294967295", 18);
        one("%u", 4000000000u, 16, "4000000000", 19);
        one("%u", 10, 2, "10", 20);
        one("%02X", 0, 16, "00", 21);
        one("%02X", 0xAB, 16, "AB", 22);
        one("%02X", 0x0F, 2, "0F", 23);
        one("0x%02X", 0x7F, 16, "0x7F", 24);
        one("0x%02X", 0x100, 16, "0x100", 25);    /* wider than the minimum width */
        one("0x%04X", 0xBEEF, 16, "0xBEEF", 26);
        one("0x%04X", 0x1, 16, "0x0001", 27);
        one("0x%08X", 0xDEADBEEFu, 16, "0xDEADBEEF", 28);
        one("0x%08X", 0, 16, "0x00000000", 29);
        one("0x%08X", 0x12345678u, 5, "0x12345678", 30);
        {
                /* %s / %c, as a refactored formatter might use them */
                char b2[16];
                int r, i;
                for (i = 0; i < 16; i++) b2[i] = 0x55;
                r = verif_snprintf(b2, 16, "%s%s", "\r\n", "two w");
                CHECK(r == 7 && b2[0] == '\r' && b2[1] == '\n' && b2[2] == 't' && b2[6] == 'w' && b2[7] == 0 && b2[8] == 0x55, "snprintf-validation: %s%s");
                for (i = 0; i < 16; i++) b2[i] = 0x55;
                r = verif_snprintf(b2, 6, "%s%s", "\n", "two w");
                CHECK(r == 6 && b2[0] == '\n' && b2[4] == ' ' && b2[5] == 0 && b2[6] == 0x55, "snprintf-validation: %s%s truncated");
                for (i = 0; i < 16; i++) b2[i] = 0x55;
                r = verif_snprintf(b2, 16, "AT%s%c", "+X", '?');
                CHECK(r == 5 && b2[0] == 'A' && b2[2] == '+' && b2[4] == '?' && b2[5] == 0, "snprintf-validation: literal, %s, %c");
        }
        WITNESS(1, "table-done");
}
#ifndef __CPROVER__
static void scen_sample(void) { }
#endif
