/*
 * k_lanes.c - E1 kernel harness for C02 (large tables): the 2-bit-per-command match table that
 * name resolution keeps in the first bytes of the working buffer. For a table of NCMDS commands
 * (up to hundreds, in two groups) and symbolic indices i, j:
 *   set_cmd_state(i, s) ; get_cmd_state(i) == s          (read after write)
 *   get_cmd_state(j) unchanged for every j != i           (no interference between lanes)
 *   prepare_parse_command() leaves every enabled command in PARTIAL_MATCH
 *   a disabled command (own flag or group flag) always reads NOT_MATCH
 * and to_upper / is_valid_cmd_name_char against their tables for all 256 characters.
 * This is the part of name resolution that the 3-command guided runs cannot reach.
 */
#ifndef NCMDS
#define NCMDS 200
#endif
#define G0 (NCMDS / 2 + 3)      /* commands in the first group */

struct scen {
        unsigned char i[2], j[2];        /* two command indices */
        unsigned char s;                 /* state to store */
        unsigned char dis_i, dis_j, gdis[2];
        unsigned char buf[(NCMDS + 3) / 4 + 2];
        unsigned char ch;
};
#define SCEN_DEFINED
#include "common.h"

static struct {
        struct cat_object at;
        struct cat_descriptor desc;
        struct cat_command_group grp[2];
        struct cat_command_group *grps[2];
        struct cat_io_interface io;
} W;
static struct cat_command G_cmds[NCMDS];
static uint8_t G_buf[(NCMDS + 3) / 4 + 2];
static uint8_t G_ubuf[2];

static int io_write(char c) { (void)c; return 1; }
static int io_read(char *c) { (void)c; return 0; }
static void world_reset(void) { WORLD_ZERO(W); WORLD_ZERO(G_cmds); WORLD_ZERO(G_buf); }

static int ref_valid_name_char(unsigned char c)
{
        return (c >= 'A' && c <= 'Z') || (c >= '0' && c <= '9') || c == '+' || c == '#' || c == '$' || c == '@' || c == '_' || c == '%' || c == '&';
}

static void scen_run(void)
{
        unsigned i = S.i[0] | ((unsigned)S.i[1] << 8), j = S.j[0] | ((unsigned)S.j[1] << 8), k;
        uint8_t before_j, after_i, after_j;
        int en_i, en_j;

        ASSUME(i < NCMDS && j < NCMDS && i != j);
        ASSUME(S.s <= 2 && S.dis_i <= 1 && S.dis_j <= 1 && S.gdis[0] <= 1 && S.gdis[1] <= 1);

        W.io.read = io_read; W.io.write = io_write;
        /* only the two commands of interest carry symbolic flags; names are irrelevant here */
        G_cmds[i].disable = S.dis_i;
        G_cmds[j].disable = S.dis_j;
        W.grp[0].cmd = &G_cmds[0]; W.grp[0].cmd_num = G0; W.grp[0].disable = S.gdis[0]; W.grps[0] = &W.grp[0];
        W.grp[1].cmd = &G_cmds[G0]; W.grp[1].cmd_num = NCMDS - G0; W.grp[1].disable = S.gdis[1]; W.grps[1] = &W.grp[1];
        W.desc.cmd_group = W.grps; W.desc.cmd_group_num = 2;
        /* the working buffer has the smallest size cat_init accepts (4 commands per byte); the two bytes behind it are a canary */
        W.desc.buf = G_buf; W.desc.buf_size = (NCMDS + 3) / 4;
        W.desc.unsolicited_buf = G_ubuf; W.desc.unsolicited_buf_size = 2;
        /* cat_init walks all NCMDS names: the fields it sets are written directly instead */
        W.at.desc = &W.desc; W.at.io = &W.io; W.at.mutex = NULL; W.at.commands_num = NCMDS;
        for (k = 0; k < sizeof(G_buf); k++) G_buf[k] = S.buf[k];

        en_i = !S.dis_i && !S.gdis[i >= G0];
        en_j = !S.dis_j && !S.gdis[j >= G0];

        before_j = get_cmd_state(&W.at, j);
        set_cmd_state(&W.at, i, S.s);
        after_i = get_cmd_state(&W.at, i);
        after_j = get_cmd_state(&W.at, j);
        CHK(C02, after_i == (en_i ? S.s : CAT_CMD_STATE_NOT_MATCH), "match state of command i is not what was stored (2-bit lane arithmetic)");
        CHK(C02, after_j == before_j, "storing the match state of one command changed another command's state");
        CHK(C09, en_j || (before_j == CAT_CMD_STATE_NOT_MATCH && after_j == CAT_CMD_STATE_NOT_MATCH), "a disabled command (or one in a disabled group) does not read NOT_MATCH");
        for (k = 0; k < sizeof(G_buf); k++)
                if (k != (i >> 2))
                        CHK(C02, G_buf[k] == S.buf[k], "set_cmd_state touched a byte that does not hold command i");

        prepare_parse_command(&W.at);
        for (k = (NCMDS + 3) / 4; k < sizeof(G_buf); k++)
                CHK(C03, G_buf[k] == S.buf[k], "prepare_parse_command wrote past a working buffer of the minimal legal size");
        CHK(C02, get_cmd_state(&W.at, i) == (en_i ? CAT_CMD_STATE_PARTIAL_MATCH : CAT_CMD_STATE_NOT_MATCH), "after the prefix every enabled command must be a partial match");
        CHK(C02, get_cmd_state(&W.at, j) == (en_j ? CAT_CMD_STATE_PARTIAL_MATCH : CAT_CMD_STATE_NOT_MATCH), "after the prefix every enabled command must be a partial match");

        /* character classes */
        {
                unsigned char c = S.ch, u = (c >= 'a' && c <= 'z') ? (unsigned char)(c - 32) : c;
                CHK(C02, (unsigned char)to_upper((char)c) == u, "to_upper differs from ASCII upper-casing");
                if (c < 128)
                        CHK(C02, (is_valid_cmd_name_char((char)c) != 0) == ref_valid_name_char(c), "legal name alphabet differs from A-Z 0-9 + # $ @ _ % &");
        }
        WITNESS(i >= 128 && en_i && S.s == 2, "high-index-full-match");
        WITNESS(i >= G0 && j < G0, "indices-in-different-groups");
}

#ifndef __CPROVER__
static void scen_sample(void)
{
        unsigned i = rnd(NCMDS), j = rnd(NCMDS);
        if (i == j) j = (j + 1) % NCMDS;
        S.i[0] = (unsigned char)i; S.i[1] = (unsigned char)(i >> 8);
        S.j[0] = (unsigned char)j; S.j[1] = (unsigned char)(j >> 8);
        S.s = (unsigned char)rnd(3);
        S.dis_i = (unsigned char)(rnd(4) == 0); S.dis_j = (unsigned char)(rnd(4) == 0);
        S.gdis[0] = (unsigned char)(rnd(6) == 0); S.gdis[1] = (unsigned char)(rnd(6) == 0);
        rnd_bytes(S.buf, sizeof(S.buf));
        S.ch = (unsigned char)rnd(256);
}
#endif
