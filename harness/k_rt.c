/*
 * k_rt.c - E1 round-trip harness for C07: the real READ formatter
 * (start_processing_format_read_args + format_read_args loop) is run on a command of NV
 * read-write variables holding symbolic values; the produced argument list is then handed to the
 * real WRITE parser (parse_write_args loop) after the variables were scrambled; every variable
 * must come back with exactly the value it had.
 *
 * Build macros: NV = 1|2; T0,T1 = variable types 0..4; DS0,DS1 = data sizes (numeric: 1,2,4;
 * buffers: 0 = symbolic 1..8).
 */
#ifndef NV
#define NV 1
#endif
#ifndef T0
#define T0 0
#endif
#ifndef T1
#define T1 0
#endif
#ifndef DS0
#define DS0 1
#endif
#ifndef DS1
#define DS1 1
#endif
#ifndef CAP
#define CAP 44
#endif
#define MAXDS 8

struct scen {
        unsigned char val[2][MAXDS];     /* the values held before READ */
        unsigned char junk[2][MAXDS];    /* what the variables are overwritten with before WRITE */
        unsigned char ds[2];             /* data_size of buffer-typed variables when DSx == 0 */
        unsigned char cap;               /* command-buffer capacity 6..CAP: "every capacity that can hold the text" and the ones that cannot */
};
#define SCEN_DEFINED
#include "common.h"

static struct {
        struct cat_object at;
        struct cat_descriptor desc;
        struct cat_command_group grp;
        struct cat_command_group *grps[1];
        struct cat_command cmd;
        struct cat_variable var[2];
        struct cat_io_interface io;
        uint8_t ubuf[2];
} W;
static uint8_t G_buf[CAP];
static union { uint8_t b[MAXDS]; uint32_t align; } G_v0, G_v1;

static int io_write(char c) { (void)c; return 1; }
static int io_read(char *c) { (void)c; return 0; }

static void world_reset(void)
{
        WORLD_ZERO(W);
        WORLD_ZERO(G_buf);
        WORLD_ZERO(G_v0);
        WORLD_ZERO(G_v1);
}

static int is_buf_type(int t) { return t == CAT_VAR_BUF_HEX || t == CAT_VAR_BUF_STRING; }

static void scen_run(void)
{
        unsigned i, v, ds[2], off, n;
        const int types[2] = { T0, T1 };
        uint8_t *store[2] = { G_v0.b, G_v1.b };

        ASSUME(S.cap >= 6 && S.cap <= CAP);
        ds[0] = DS0 ? DS0 : S.ds[0];
        ds[1] = DS1 ? DS1 : S.ds[1];
        for (v = 0; v < NV; v++) {
                ASSUME(ds[v] >= 1 && ds[v] <= MAXDS);
                if (!is_buf_type(types[v]))
                        ASSUME(ds[v] == 1 || ds[v] == 2 || ds[v] == 4);
                if (types[v] == CAT_VAR_BUF_STRING) {
                        /* a string value: NUL-terminated inside data_size (length < data_size) */
                        int hasnul = 0;
                        for (i = 0; i < MAXDS; i++)
                                if (i < ds[v] && S.val[v][i] == 0)
                                        hasnul = 1;
                        ASSUME(hasnul);
                }
        }

        W.io.read = io_read; W.io.write = io_write;
        for (v = 0; v < NV; v++) {
                W.var[v].type = (cat_var_type)types[v];
                W.var[v].data = store[v];
                W.var[v].data_size = ds[v];
                W.var[v].access = CAT_VAR_ACCESS_READ_WRITE;
        }
        W.cmd.name = "+V";
        W.cmd.var = W.var;
        W.cmd.var_num = NV;
        W.cmd.need_all_vars = true;
        W.grp.cmd = &W.cmd; W.grp.cmd_num = 1;
        W.grps[0] = &W.grp;
        W.desc.cmd_group = W.grps; W.desc.cmd_group_num = 1;
        W.desc.buf = G_buf; W.desc.buf_size = S.cap;
        W.desc.unsolicited_buf = W.ubuf;
        W.desc.unsolicited_buf_size = 2;
        cat_init(&W.at, &W.desc, &W.io, NULL);

        for (v = 0; v < NV; v++)
                for (i = 0; i < MAXDS; i++)
                        store[v][i] = S.val[v][i];

        /* ---- READ: format --------------------------------------------------------------- */
        W.at.cmd = &W.cmd;
        W.at.cmd_type = CAT_CMD_TYPE_READ;
        start_processing_format_read_args(&W.at, CAT_FSM_TYPE_ATCMD);
        /* with a small capacity every formatting step may legitimately end in ERROR; then there is no READ output to feed back */
        if (W.at.state == CAT_STATE_FLUSH_IO_WRITE_WAIT && W.at.write_state_after == CAT_STATE_AFTER_FLUSH_RESET) { WITNESS(1, "does-not-fit"); return; }
        CHK(C07, W.at.state == CAT_STATE_FORMAT_READ_ARGS && W.at.var == &W.var[0] && W.at.index == 0, "formatting starts with the first variable");
        ASSUME(W.at.state == CAT_STATE_FORMAT_READ_ARGS && W.at.var == &W.var[0] && W.at.index == 0);
        W.at.var = &W.var[0]; W.at.index = 0;
        format_read_args(&W.at, CAT_FSM_TYPE_ATCMD);
#if NV == 2
        if (W.at.state == CAT_STATE_FLUSH_IO_WRITE_WAIT && W.at.write_state_after == CAT_STATE_AFTER_FLUSH_RESET) { WITNESS(1, "does-not-fit"); return; }
        CHK(C07, W.at.state == CAT_STATE_FORMAT_READ_ARGS && W.at.var == &W.var[1] && W.at.index == 1, "formatting continues with the second variable");
        ASSUME(W.at.state == CAT_STATE_FORMAT_READ_ARGS && W.at.var == &W.var[1] && W.at.index == 1);
        W.at.var = &W.var[1]; W.at.index = 1;
        format_read_args(&W.at, CAT_FSM_TYPE_ATCMD);
#endif
        if (W.at.state == CAT_STATE_FLUSH_IO_WRITE_WAIT && W.at.write_state_after == CAT_STATE_AFTER_FLUSH_RESET) { WITNESS(1, "does-not-fit"); return; }
        CHK(C07, W.at.state == CAT_STATE_FLUSH_IO_WRITE_WAIT && W.at.write_state_after == CAT_STATE_AFTER_FLUSH_OK,
            "the READ response is produced or refused with ERROR");
        ASSUME(W.at.state == CAT_STATE_FLUSH_IO_WRITE_WAIT && W.at.write_state_after == CAT_STATE_AFTER_FLUSH_OK);
        CHK(C07, G_buf[0] == '+' && G_buf[1] == 'V' && G_buf[2] == '=', "response starts with name=");

        /* ---- the argument list as a peer would send it back: text after '=' -------------- */
        off = 3;
        n = 0;
        for (i = 0; i + off < CAP; i++) {
                if (G_buf[i + off] == 0)
                        break;
                n++;
        }
        CHK(C07, n + off < S.cap, "response is NUL-terminated inside the buffer");
        for (i = 0; i + off < CAP; i++)
                G_buf[i] = (i < n) ? G_buf[i + off] : 0;

        /* ---- scramble, then WRITE: parse ------------------------------------------------- */
        for (v = 0; v < NV; v++)
                for (i = 0; i < MAXDS; i++)
                        if (i < ds[v])
                                store[v][i] = S.junk[v][i];

        W.at.cmd_type = CAT_CMD_TYPE_WRITE;
        W.at.state = CAT_STATE_PARSE_WRITE_ARGS;
        W.at.length = n;
        W.at.position = 0;
        W.at.index = 0;
        W.at.var = &W.var[0];
        parse_write_args(&W.at);
#if NV == 2
        CHK(C07, W.at.state == CAT_STATE_PARSE_WRITE_ARGS && W.at.var == &W.var[1] && W.at.index == 1, "first argument accepted, second pending");
        ASSUME(W.at.state == CAT_STATE_PARSE_WRITE_ARGS && W.at.var == &W.var[1] && W.at.index == 1);
        W.at.var = &W.var[1]; W.at.index = 1;
        parse_write_args(&W.at);
#endif
        CHK(C07, W.at.state == CAT_STATE_FLUSH_IO_WRITE_WAIT && G_buf[0] == 'O' && G_buf[1] == 'K' && G_buf[2] == 0,
            "the WRITE of the printed argument list is accepted");

        for (v = 0; v < NV; v++) {
                if (types[v] == CAT_VAR_BUF_STRING) {
                        int live = 1;
                        for (i = 0; i < MAXDS; i++) {
                                if (i < ds[v] && live) {
                                        CHK(C07, store[v][i] == S.val[v][i], "string value restored");
                                        if (S.val[v][i] == 0)
                                                live = 0;
                                }
                        }
                } else {
                        for (i = 0; i < MAXDS; i++)
                                if (i < ds[v])
                                        CHK(C07, store[v][i] == S.val[v][i], "variable value restored");
                }
        }
        WITNESS(n >= 3, "argument-text-3-chars");
        WITNESS(store[0][0] != S.junk[0][0], "restore-changed-a-byte");
}

#ifndef __CPROVER__
static void scen_sample(void)
{
        unsigned v, i;
        S.cap = (unsigned char)(rnd(3) ? CAP : 6 + rnd(CAP - 5));
        rnd_bytes(&S.val[0][0], sizeof(S.val));
        rnd_bytes(&S.junk[0][0], sizeof(S.junk));
        for (v = 0; v < 2; v++) {
                S.ds[v] = (unsigned char)(1 + rnd(MAXDS));
                if (rnd(2))
                        for (i = 0; i < MAXDS; i++)
                                S.val[v][i] = RND_PICK("\\\"\n,ab0\r");
                S.val[v][rnd(S.ds[v])] = 0;
                if (rnd(4) == 0) { S.val[v][3] = 0x80; S.val[v][2] = S.val[v][1] = S.val[v][0] = 0; }
                if (rnd(4) == 0) { S.val[v][3] = 0x7f; S.val[v][2] = S.val[v][1] = S.val[v][0] = 0xff; }
        }
}
#endif
