/*
 * k_big.c - E1 kernel for LARGE byte-buffer / string variables (C05, C07's transport leg, C03):
 * the real parse_write_args() -> parse_buffer_hexadecimal / parse_buffer_string on a variable whose
 * data_size straddles 256 (DSB-3 .. DSB, DSB = 258 by default), argument text of decoded length
 * data_size-1 .. data_size+1 (hex) or data_size-2 .. data_size (string). Every other kernel keeps
 * data_size <= 8, so a byte counter that is too narrow for a big variable (8-bit `size`) is invisible
 * there; here it wraps inside the bound.
 *
 * The grammar is NOT the subject (k_buf.c): every text byte is a hex digit (VT 3) or a plain
 * character (VT 4, no quote / backslash / NUL), so the only symbolic control flow is the length.
 *
 * Build macros: VT = 3 hex buffer, 4 string;  DSB = largest data_size.
 */
#ifndef VT
#define VT 3
#endif
#ifndef DSB
#define DSB 258
#endif
#if VT == 3
#define LEN (2 * (DSB + 1))
#else
#define LEN (DSB + 2)
#endif

struct scen {
        unsigned char text[LEN];
        unsigned char dk;        /* decoded length = ds - 1 + dk (hex), ds - 2 + dk (string); dk 0..2 */
        unsigned char dds;       /* ds = DSB - 3 + dds; dds 0..3 */
        unsigned char access;    /* 0 RW, 1 RO */
        unsigned char fill;      /* previous content of the variable and of the canaries */
};
#define SCEN_DEFINED
#include "common.h"

#define CAP (LEN + 4)

/* the decode obligations are C05's; for a large variable they are also the transport leg of C07 (READ text -> WRITE) */
#define BCHK(c, msg) do { if (EN_C05 || EN_C07) CHECK((c), "C05/C07: " msg); } while (0)

static struct {
        struct cat_object at;
        struct cat_descriptor desc;
        struct cat_command_group grp;
        struct cat_command_group *grps[1];
        struct cat_command cmd;
        struct cat_variable var[1];
        struct cat_io_interface io;
        uint8_t ubuf;
        int wcalls0;
        size_t wsize0;
} W;
static uint8_t G_buf[CAP];
static uint8_t G_store[DSB + 6]; /* [0..1] canary, [2..2+ds) variable, rest canary */

static int io_write(char c) { (void)c; return 1; }
static int io_read(char *c) { (void)c; return 0; }

static int var_write(const struct cat_variable *v, const size_t n)
{
        (void)v;
        W.wcalls0++;
        W.wsize0 = n;
        return 0;
}

static void world_reset(void)
{
        WORLD_ZERO(W);
        WORLD_ZERO(G_buf);
        WORLD_ZERO(G_store);
}

static int hexval(unsigned char c)
{
        if (c >= '0' && c <= '9') return c - '0';
        if (c >= 'A' && c <= 'F') return c - 'A' + 10;
        if (c >= 'a' && c <= 'f') return c - 'a' + 10;
        return -1;
}

static void scen_run(void)
{
        unsigned i, n, k, ds, fits;
        int accepted;

        ASSUME(S.dk <= 2 && S.dds <= 3 && S.access <= 1);
        ds = DSB - 3 + S.dds;
#if VT == 3
        k = ds - 1 + S.dk;
        n = 2 * k;
        fits = (k <= ds);
        for (i = 0; i < LEN; i++)
                ASSUME(hexval(S.text[i]) >= 0);
#else
        k = ds - 2 + S.dk;
        n = k + 2;
        fits = (k + 1 <= ds);
        for (i = 0; i < LEN; i++)
                ASSUME(S.text[i] != 0 && S.text[i] != '"' && S.text[i] != '\\');
#endif

        W.io.read = io_read; W.io.write = io_write;
        W.var[0].type = (cat_var_type)VT;
        W.var[0].data = &G_store[2];
        W.var[0].data_size = ds;
        W.var[0].access = (cat_var_access)S.access;
        W.var[0].write = var_write;
        W.cmd.name = "+V";
        W.cmd.var = W.var;
        W.cmd.var_num = 1;
        W.grp.cmd = &W.cmd; W.grp.cmd_num = 1;
        W.grps[0] = &W.grp;
        W.desc.cmd_group = W.grps; W.desc.cmd_group_num = 1;
        W.desc.buf = G_buf; W.desc.buf_size = CAP;
        W.desc.unsolicited_buf = &W.ubuf;
        W.desc.unsolicited_buf_size = 1;
        cat_init(&W.at, &W.desc, &W.io, NULL);

        for (i = 0; i < DSB + 6; i++) G_store[i] = S.fill;

#if VT == 3
        for (i = 0; i < LEN; i++)
                if (i < n) G_buf[i] = S.text[i];
#else
        G_buf[0] = '"';
        for (i = 0; i < DSB; i++)
                if (i < k) G_buf[1 + i] = S.text[i];
        G_buf[1 + k] = '"';
#endif
        G_buf[n] = 0;
        W.at.length = n;

        W.at.cmd = &W.cmd;
        W.at.cmd_type = CAT_CMD_TYPE_WRITE;
        W.at.state = CAT_STATE_PARSE_WRITE_ARGS;
        W.at.position = 0;
        W.at.index = 0;
        W.at.var = &W.var[0];

        parse_write_args(&W.at);

        BCHK(W.at.state == CAT_STATE_FLUSH_IO_WRITE_WAIT, "argument parsing ends in a result code");
        accepted = (G_buf[0] == 'O' && G_buf[1] == 'K' && G_buf[2] == 0);
        BCHK(accepted || (G_buf[0] == 'E' && G_buf[1] == 'R' && G_buf[2] == 'R' && G_buf[3] == 'O' && G_buf[4] == 'R' && G_buf[5] == 0),
            "answer is OK or ERROR");

        BCHK(G_store[0] == S.fill && G_store[1] == S.fill, "bytes before the variable untouched");
        for (i = 0; i < DSB + 4; i++)
                if (i >= ds)
                        BCHK(G_store[2 + i] == S.fill, "no byte at or beyond data_size is modified");

        if (S.access == CAT_VAR_ACCESS_READ_ONLY) {
                for (i = 0; i < DSB; i++)
                        CHK(C08, G_store[2 + i] == S.fill, "read-only variable keeps its value");
        } else {
                BCHK(accepted == (int)fits, "accepted iff the decoded length fits the (large) variable");
                if (fits) {
                        for (i = 0; i < DSB; i++)
                                if (i < k) {
#if VT == 3
                                        BCHK(G_store[2 + i] == (unsigned char)((hexval(S.text[2 * i]) << 4) | hexval(S.text[2 * i + 1])),
                                            "variable holds the decoded bytes");
#else
                                        BCHK(G_store[2 + i] == S.text[i], "variable holds the decoded bytes");
#endif
                                }
#if VT == 4
                        BCHK(G_store[2 + k] == 0, "string is NUL-terminated at the decoded length");
#endif
                        BCHK(W.wcalls0 == 1 && W.wsize0 == k, "variable write callback told the decoded length");
                } else {
                        BCHK(W.wcalls0 == 0, "no write callback for a rejected argument");
                }
                WITNESS(fits && k == ds - (VT == 4) && ds >= 256, "accepted-at-exact-capacity-above-255");
                WITNESS(!fits && ds >= 256, "rejected-one-too-long");
                WITNESS(fits && ds == 255, "accepted-255");
        }
}

#ifndef __CPROVER__
static void scen_sample(void)
{
        unsigned i;
        for (i = 0; i < LEN; i++)
#if VT == 3
                S.text[i] = RND_PICK("0123456789abcdefABCDEF");
#else
                S.text[i] = RND_PICK("abcXYZ019 ,;=?");
#endif
        S.dk = (unsigned char)rnd(3);
        S.dds = (unsigned char)rnd(4);
        S.access = (unsigned char)(rnd(5) == 0);
        S.fill = (unsigned char)rnd(256);
}
#endif
