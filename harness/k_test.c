/*
 * k_test.c - E1 kernel harness for C19 (automatic '=?' response): the real
 * start_processing_format_test_args + format_test_args loop on a command of NV variables whose
 * type, data_size, access mode and name presence are symbolic, description present or not, buffer
 * capacity symbolic from generous down to too small. The produced text is compared byte for byte
 * with a reference; if it does not fit (or a numeric variable has an unsupported width) the answer
 * must be ERROR - never a truncated line.
 */
#ifndef NV
#define NV 2
#endif
#ifndef CAPMAX
#define CAPMAX 64
#endif
#ifndef NAMEMAX
#define NAMEMAX 24       /* the first variable's name has a symbolic length 1..NAMEMAX (long names: a token longer than any fixed scratch size) */
#endif

struct scen {
        unsigned char vt[3], vds[3], vacc[3], vnamed[3];
        unsigned char desc;
        unsigned char cap;
        unsigned char crflag;
        unsigned char nlen;              /* length of the first variable's name */
};
#define SCEN_DEFINED
#include "common.h"

static struct {
        struct cat_object at;
        struct cat_descriptor desc;
        struct cat_command_group grp;
        struct cat_command_group *grps[1];
        struct cat_command cmd;
        struct cat_variable var[3];
        struct cat_io_interface io;
        uint8_t ubuf[2];
} W;
static uint8_t G_buf[CAPMAX];
static uint8_t G_data[8];
static char EXP[96];
static char G_name0[NAMEMAX + 1];
static unsigned exp_n;

static int io_write(char c) { (void)c; return 1; }
static int io_read(char *c) { (void)c; return 0; }
static void world_reset(void) { WORLD_ZERO(W); WORLD_ZERO(G_buf); WORLD_ZERO(G_data); WORLD_ZERO(EXP); exp_n = 0; }

static void put(const char *s) { while (*s) { if (exp_n < 95) EXP[exp_n] = *s; exp_n++; s++; } }

static void scen_run(void)
{
        const char *vnames[3] = { G_name0, "yy", "z" };
        unsigned v, i, cap = S.cap;
        int unsupported = 0, fits, ok;

        ASSUME(cap >= 6 && cap <= CAPMAX);
        ASSUME(S.desc <= 1 && S.crflag <= 1);
        ASSUME(S.nlen >= 1 && S.nlen <= NAMEMAX);
        for (i = 0; i < NAMEMAX + 1; i++) G_name0[i] = (i < S.nlen) ? 'n' : 0;
        for (v = 0; v < NV; v++) {
                ASSUME(S.vt[v] <= 4 && S.vacc[v] <= 2 && S.vnamed[v] <= 1);
                ASSUME(S.vds[v] >= 1 && S.vds[v] <= 8);
        }

        W.io.read = io_read; W.io.write = io_write;
        for (v = 0; v < NV; v++) {
                W.var[v].type = (cat_var_type)S.vt[v];
                W.var[v].data = G_data;
                W.var[v].data_size = S.vds[v];
                W.var[v].access = (cat_var_access)S.vacc[v];
                W.var[v].name = S.vnamed[v] ? vnames[v] : NULL;
        }
        W.cmd.name = "+T";
        W.cmd.description = S.desc ? "two words" : NULL;
        W.cmd.var = W.var;
        W.cmd.var_num = NV;
        W.grp.cmd = &W.cmd; W.grp.cmd_num = 1; W.grps[0] = &W.grp;
        W.desc.cmd_group = W.grps; W.desc.cmd_group_num = 1;
        W.desc.buf = G_buf; W.desc.buf_size = cap;
        W.desc.unsolicited_buf = W.ubuf; W.desc.unsolicited_buf_size = 2;
        cat_init(&W.at, &W.desc, &W.io, NULL);
        W.at.cr_flag = S.crflag;
        for (i = 0; i < CAPMAX; i++) G_buf[i] = 0x7e;

        /* ---- reference text --------------------------------------------------------------------- */
        exp_n = 0;
        put("+T=");
        for (v = 0; v < NV; v++) {
                unsigned ds = S.vds[v];
                if (v > 0) put(",");
                put("<");
                if (S.vnamed[v]) { put(vnames[v]); put(":"); }
                switch (S.vt[v]) {
                case 0: put(ds == 1 ? "INT8" : ds == 2 ? "INT16" : ds == 4 ? "INT32" : "?"); if (ds != 1 && ds != 2 && ds != 4) unsupported = 1; break;
                case 1: put(ds == 1 ? "UINT8" : ds == 2 ? "UINT16" : ds == 4 ? "UINT32" : "?"); if (ds != 1 && ds != 2 && ds != 4) unsupported = 1; break;
                case 2: put(ds == 1 ? "HEX8" : ds == 2 ? "HEX16" : ds == 4 ? "HEX32" : "?"); if (ds != 1 && ds != 2 && ds != 4) unsupported = 1; break;
                case 3: put("HEXBUF"); break;
                default: put("STRING"); break;
                }
                put("[");
                put(S.vacc[v] == 0 ? "RW" : S.vacc[v] == 1 ? "RO" : "WO");
                put("]>");
                if (unsupported) break;
        }
        if (!unsupported && S.desc) { put(S.crflag ? "\r\n" : "\n"); put("two words"); }
        fits = exp_n < cap;
        ok = fits && !unsupported;

        /* ---- the real formatter ----------------------------------------------------------------- */
        W.at.cmd = &W.cmd;
        W.at.cmd_type = CAT_CMD_TYPE_TEST;
        start_processing_format_test_args(&W.at, CAT_FSM_TYPE_ATCMD);
        for (v = 0; v < NV; v++) {
                if (W.at.state == CAT_STATE_FORMAT_TEST_ARGS) {
                        CHK(C19, W.at.var == &W.var[v] && W.at.index == v, "variables are described in order");
                        ASSUME(W.at.var == &W.var[v] && W.at.index == v);
                        W.at.var = &W.var[v]; W.at.index = v;
                        format_test_args(&W.at, CAT_FSM_TYPE_ATCMD);
                }
        }
        CHK(C19, W.at.state == CAT_STATE_FLUSH_IO_WRITE_WAIT, "the TEST response (or ERROR) is ready to be flushed");
        if (ok) {
                CHK(C19, W.at.write_state_after == CAT_STATE_AFTER_FLUSH_OK, "a fitting description is answered with data then OK");
                for (i = 0; i < 96; i++)
                        if (i < exp_n && i < CAPMAX)
                                CHK(C19, G_buf[i] == (uint8_t)EXP[i], "TEST response text differs from <name:TYPE[access]>,... description");
                CHK(C19, G_buf[exp_n] == 0, "TEST response is terminated right after the expected text");
        } else {
                CHK(C19, W.at.write_state_after == CAT_STATE_AFTER_FLUSH_RESET && G_buf[0] == 'E' && G_buf[1] == 'R' && G_buf[2] == 'R' && G_buf[3] == 'O' &&
                         G_buf[4] == 'R' && G_buf[5] == 0,
                    "text that does not fit (or an unsupported width) must be answered with ERROR, not with a truncated line");
        }
        WITNESS(ok && exp_n + 1 == cap, "fits-exactly");
        WITNESS(!ok && !unsupported && exp_n == cap, "one-byte-short");
        WITNESS(ok && S.desc && exp_n > 30, "long-with-description");
        WITNESS(unsupported, "unsupported-width");
        WITNESS(ok && S.vnamed[0] && S.nlen >= 20, "name-of-20-characters-fits");
}

#ifndef __CPROVER__
static void scen_sample(void)
{
        unsigned v;
        for (v = 0; v < 3; v++) {
                S.vt[v] = (unsigned char)rnd(5);
                S.vds[v] = (unsigned char)(rnd(4) ? (1u << rnd(3)) : 1 + rnd(8));
                S.vacc[v] = (unsigned char)rnd(3);
                S.vnamed[v] = (unsigned char)rnd(2);
        }
        S.desc = (unsigned char)rnd(2);
        S.crflag = (unsigned char)rnd(2);
        S.nlen = (unsigned char)(rnd(2) ? 1 + rnd(3) : 1 + rnd(NAMEMAX));
        S.cap = (unsigned char)(6 + rnd(CAPMAX - 5));
}
#endif
