/*
 * r_events.c - E3 guided run with unsolicited events in flight: black-box confirmation for
 * C11 (whole, non-interleaved units), C13 (bounded FIFO, delivered exactly once, in order),
 * C15 (quiescence is reached, nothing left behind) and C18 (cat_is_busy never idle mid-unit).
 *
 * Fixed table: +A is addressed by the command line AT+A?<CR>?LF (read handler, terminal code -> data
 * unit "+A=" and/or result code); +B (uint8 variable, optional read handler) and +C (no variable,
 * optional handlers) are the event commands. Up to two triggers fall on symbolic service steps inside
 * the window [T0, T0+3) (second one 0..2 steps after the first), with symbolic command / kind; at most
 * one io->write refusal anywhere. The event handlers' return code is fixed per job (EVENT_CODE).
 *
 * Monitor (all black box): every completed output unit must be one of the texts the two producers can
 * emit ("+A=", OK, ERROR, "+B=<value>", "+C="), command units in order data -> result code, exactly one
 * result code for the line; trigger results must agree with cat_is_unsolicited_buffer_full asked just
 * before; event handlers fire in acceptance order, once per accepted event that reaches its handler;
 * event units = accepted events that emit; cat_is_busy = OK only between units with nothing pending;
 * at the end everything is quiescent and the queue is empty.
 */
#include <stdint.h>
#include <stddef.h>
#define SYM_NAMES 0
#define SYM_FLAGS 0
#define NVAR 1
#define NH 6
#define NO_OUTLOG
#define EVENT_FIRST_CMD 1
#ifndef EVENT_CODE
#define EVENT_CODE CAT_RETURN_STATE_DATA_OK
#endif
#ifndef T0
#define T0 0
#endif
#ifndef WIN
#define WIN 3
#endif
#ifndef RINGCAP
#define RINGCAP 1
#endif
#define L 7
#ifndef MAXTRIG
#define MAXTRIG 2
#endif
#ifndef ALLOW_REFUSE
#define ALLOW_REFUSE 1
#endif
#ifndef HM1
#define HM1 15
#endif
#ifndef HM2
#define HM2 15
#endif

#define SCEN_EXTRA unsigned char d1, d2, ntrig, ecmd[2], ekind[2], refuse_at;

static struct {
        unsigned cmd_units, evt_b_units, evt_c_units, codes;
        int bad_text, bad_order, bad_busy;
        /* accepted events in order */
        unsigned acc_n;
        unsigned char acc_cmd[2], acc_kind[2];
        int bad_full_prediction, bad_trigger_result;
} X;
static void x_reset(void);
#define WORLD_RESET_EXTRA x_reset()
#define ON_UNIT(kind) x_unit(kind)
static void x_unit(int kind);
#include "world.h"

static void x_reset(void) { WORLD_ZERO(X); }

static int pay_is(const char *t, unsigned n)
{
        unsigned i;
        if (W.u_len != n) return 0;
        for (i = 0; i < 8; i++)
                if (i < n && i < PAYMAX && G_pay[i] != t[i]) return 0;
        return 1;
}

static void x_unit(int kind)
{
        char bt[8];
        unsigned n = 0, val = G_v0;
        bt[n++] = '+'; bt[n++] = 'B'; bt[n++] = '=';
        if (val >= 100) bt[n++] = (char)('0' + val / 100);
        if (val >= 10) bt[n++] = (char)('0' + (val / 10) % 10);
        bt[n++] = (char)('0' + val % 10);
        if (kind == UNIT_OK || kind == UNIT_ERROR) {
                X.codes++;
        } else if (pay_is("+A=", 3)) {
                if (X.codes != 0) X.bad_order = 1;   /* data line after the result code */
                X.cmd_units++;
        } else if (pay_is(bt, n)) {
                X.evt_b_units++;
        } else if (pay_is("+C=", 3)) {
                X.evt_c_units++;
        } else {
                X.bad_text = 1;                      /* interleaved, truncated or duplicated bytes */
        }
}

static void do_trigger(unsigned j)
{
        unsigned ci = 1 + (S.ecmd[j] & 1);
        cat_cmd_type kind = (S.ekind[j] & 1) ? CAT_CMD_TYPE_TEST : CAT_CMD_TYPE_READ;
        cat_status full = cat_is_unsolicited_buffer_full(&W.at);
        cat_status r = (kind == CAT_CMD_TYPE_READ) ? cat_trigger_unsolicited_read(&W.at, &G_cmd[ci]) : cat_trigger_unsolicited_test(&W.at, &G_cmd[ci]);
        if (!(full == CAT_STATUS_OK || full == CAT_STATUS_ERROR_BUFFER_FULL)) X.bad_full_prediction = 1;
        if ((r == CAT_STATUS_OK) != (full == CAT_STATUS_OK)) X.bad_full_prediction = 1;
        if (!(r == CAT_STATUS_OK || r == CAT_STATUS_ERROR_BUFFER_FULL)) X.bad_trigger_result = 1;
        /* never more than CAPACITY + 1 events can be alive (CAPACITY waiting + one in progress) */
        if (r == CAT_STATUS_OK) {
                if (X.acc_n < 2) { X.acc_cmd[X.acc_n] = (unsigned char)ci; X.acc_kind[X.acc_n] = (unsigned char)kind; }
                X.acc_n++;
        }
}

/* does an accepted event reach a handler / emit a unit?  (reference for the two event commands) */
/* "+B=<value>" must fit the event half of the buffer (text + NUL), else the event fails at once */
static int b_fits(void)
{
        unsigned val = S.vinit[0], len = 3u + (val >= 100 ? 3u : val >= 10 ? 2u : 1u);
        return len < cmd_half_cap();
}
static int ev_calls_handler(unsigned ci, unsigned kind)
{
        if (kind == CAT_CMD_TYPE_READ && ci == 1 && !b_fits()) return 0;
        if (kind == CAT_CMD_TYPE_READ) return (S.hm[ci] & H_READ) != 0;          /* +B: after formatting its variable; +C: handler only */
        return (S.hm[ci] & H_TEST) != 0 && ci == 2;                             /* TEST on +B needs 17 bytes: does not fit the 6..12-byte event buffer */
}
static int ev_emits(unsigned ci, unsigned kind)
{
        int code_emits = (EVENT_CODE == CAT_RETURN_STATE_DATA_OK);
        if (kind == CAT_CMD_TYPE_READ) {
                if (ci == 1 && !b_fits()) return 0;
                if (ci == 1) return (S.hm[1] & H_READ) ? code_emits : 1;         /* +B: automatic response when there is no handler */
                return (S.hm[2] & H_READ) ? code_emits : 0;                      /* +C: nothing readable -> fails at once */
        }
        if (ci == 2) return (S.hm[2] & H_TEST) ? code_emits : 1;                 /* +C test: the handler's code decides; without a handler "+C=" is emitted automatically */
        return 0;
}

static void scen_run(void)
{
        unsigned i, t1, t2, zw = 0, exp_b = 0, exp_c = 0, exp_h = 0, hseen = 0;
        int k;
        cat_status r = CAT_STATUS_BUSY;

        world_assume();
        ASSUME(S.in[0] == 'A' && S.in[1] == 'T' && S.in[2] == '+' && S.in[3] == 'A' && S.in[4] == '?');
        ASSUME((S.in_len == 6 && S.in[5] == '\n') || (S.in_len == 7 && S.in[5] == '\r' && S.in[6] == '\n'));
        ASSUME(S.hm[0] & H_READ);
        ASSUME(S.vacc[0] == CAT_VAR_ACCESS_READ_WRITE && S.vcb[0] == 0);
#ifndef EVENTS_FULLY_SYMBOLIC
        /* this scenario explores SCHEDULES (trigger placement, event choice, refusal position); the descriptor is pinned:
         * symbolic handler subsets / capacities on top of it exhausted 14 GB without a verdict */
        ASSUME(S.hm[0] == 15 && S.hm[1] == HM1 && S.hm[2] == HM2 && S.capb == 16 && S.in_len == 6);
        ASSUME(S.rc[0] == 1 && S.vinit[0] == 207);
#endif
        ASSUME(S.d1 < WIN && S.d2 <= 2 && S.ntrig <= MAXTRIG);
        if (!ALLOW_REFUSE) ASSUME(S.refuse_at == N);
        ASSUME(S.refuse_at <= N);
        t1 = T0 + S.d1;
        t2 = t1 + S.d2;
        world_build();
        W.sched_w = 1;
        for (i = 0; i < N; i++) { ASSUME(S.sw[i] <= 1); ASSUME(S.sw[i] == (i == S.refuse_at)); if (S.sw[i]) zw++; }

        for (k = 0; k < N; k++) {
                cat_status busy;
                W.k = k;
                if (S.ntrig >= 1 && (unsigned)k == t1) do_trigger(0);
                if (S.ntrig >= 2 && (unsigned)k == t2) do_trigger(1);
                r = hinted_service(0, k, &W.at);
                busy = cat_is_busy(&W.at);
                if (busy == CAT_STATUS_OK && W.u_state != 0)
                        X.bad_busy = 1;
        }

        /* reference: what the accepted events must produce */
        for (i = 0; i < 2; i++)
                if (i < X.acc_n) {
                        if (ev_emits(X.acc_cmd[i], X.acc_kind[i])) { if (X.acc_cmd[i] == 1) exp_b++; else exp_c++; }
                        if (ev_calls_handler(X.acc_cmd[i], X.acc_kind[i])) exp_h++;
                }

        CHK(C11, !W.malformed && W.u_state == 0, "output is not a sequence of complete newline-framed units");
        CHK(C11, !X.bad_text, "a unit's text is none of the texts a single producer emits (interleaved, truncated or duplicated bytes)");
        CHK(C11, !X.bad_order && X.codes == 1 && X.cmd_units <= 1, "command units out of order / result code count wrong");
        CHK(C11, X.evt_b_units == exp_b && X.evt_c_units == exp_c, "an event unit was lost or duplicated");
        CHK(C13, !X.bad_full_prediction, "cat_is_unsolicited_buffer_full does not predict the trigger outcome");
        CHK(C13, !X.bad_trigger_result, "a trigger returned something other than OK / BUFFER_FULL");
        CHK(C13, X.evt_b_units == exp_b && X.evt_c_units == exp_c, "accepted events are not each processed exactly once");
        /* handlers of event commands fire in acceptance order, once each */
        for (i = 0; i < NH; i++)
                if (i < W.hl_n && W.hl_cmd[i] >= 1) {
                        unsigned j, want = 2, cnt = 0;
                        for (j = 0; j < 2; j++)
                                if (j < X.acc_n && ev_calls_handler(X.acc_cmd[j], X.acc_kind[j])) { if (cnt == hseen) want = j; cnt++; }
                        CHK(C13, want < 2 && W.hl_cmd[i] == X.acc_cmd[want] && W.hl_kind[i] == X.acc_kind[want], "event handlers fire out of acceptance order (or for an event that was not accepted)");
                        hseen++;
                }
        CHK(C13, hseen == exp_h, "an accepted event's handler did not run exactly once");
        if (S.ntrig >= 1) CHK(C13, X.acc_n >= 1, "a trigger on an empty queue was refused");
        CHK(C15, r == CAT_STATUS_OK && cat_is_unsolicited_buffer_full(&W.at) == CAT_STATUS_OK && W.in_pos == S.in_len, "not quiescent within the step bound / an event left behind");
        CHK(C15, cat_is_unsolicited_event_buffered(&W.at, &G_cmd[1], CAT_CMD_TYPE_NONE) == CAT_STATUS_OK &&
                 cat_is_unsolicited_event_buffered(&W.at, &G_cmd[2], CAT_CMD_TYPE_NONE) == CAT_STATUS_OK, "an event is still pending after quiescence");
        CHK(C18, !X.bad_busy, "cat_is_busy reported idle in the middle of an output unit");
        CHK(C18, cat_is_busy(&W.at) == CAT_STATUS_OK, "cat_is_busy still busy after quiescence");

        WITNESS(X.acc_n == 2 && exp_b + exp_c == 2, "two-events-emitted");
        WITNESS(S.ntrig == 2 && X.acc_n == 1, "second-trigger-refused");
        WITNESS(X.cmd_units == 1 && X.evt_b_units >= 1, "command-data-and-event-unit");
        WITNESS(zw == 1 && S.refuse_at < 40, "a-write-was-refused");
        (void)zw;
}

#ifndef __CPROVER__
static void scen_sample(void)
{
        unsigned i;
        world_sample();
        S.in[0] = 'A'; S.in[1] = 'T'; S.in[2] = '+'; S.in[3] = 'A'; S.in[4] = '?';
        if (rnd(2)) { S.in[5] = '\n'; S.in_len = 6; } else { S.in[5] = '\r'; S.in[6] = '\n'; S.in_len = 7; }
        S.hm[0] |= H_READ;
        S.vacc[0] = 0; S.vcb[0] = 0;
        S.d1 = (unsigned char)rnd(WIN); S.d2 = (unsigned char)rnd(3); S.ntrig = (unsigned char)rnd(MAXTRIG + 1);
        S.ecmd[0] = (unsigned char)rnd(2); S.ecmd[1] = (unsigned char)rnd(2); S.ekind[0] = (unsigned char)(rnd(4) == 0); S.ekind[1] = (unsigned char)(rnd(4) == 0);
#ifndef EVENTS_FULLY_SYMBOLIC
        S.hm[0] = 15; S.hm[1] = HM1; S.hm[2] = HM2; S.capb = 16; S.in[5] = '\n'; S.in_len = 6; S.rc[0] = 1; S.vinit[0] = 207;
#endif
        S.refuse_at = (unsigned char)((rnd(3) || !ALLOW_REFUSE) ? N : rnd(N));
        for (i = 0; i < N; i++) S.sw[i] = (unsigned char)(i == S.refuse_at);
}
#endif
