/*
 * r_resolve.c - E3 guided run for C02 (name resolution + suffix select the one handler that is
 * invoked) and C09 (disabled / test-only / handler-less commands are never executed).
 *
 * One line of the shape  A T n{0..} [? | = | =?] a{0..} [R] L  (SHAPESTR), name bytes over the
 * whole legal alphabet in either case; table of M commands (G groups) with symbolic names,
 * disable / group-disable / only_test / implicit_write flags and handler subsets. The reference
 * lookup below is the specification; the log of handler and variable-callback invocations made by
 * the real parser is compared with it.
 */
#define NH 4
#define NO_OUTLOG   /* this harness never looks at the raw output log */
#include "world.h"

#ifndef SHAPESTR
#error "r_resolve needs SHAPESTR"
#endif

/* case-insensitive comparison of the first n typed bytes with command i's name */
static int name_eq(unsigned i, const unsigned char *t, unsigned n)
{
        unsigned j;
        if (S.nl[i] != n) return 0;
        for (j = 0; j < K + 2; j++)
                if (j < n && (j >= K || up(S.nm[i][j]) != up(t[j]))) return 0;
        return 1;
}
static int name_prefix(unsigned i, const unsigned char *t, unsigned n)
{
        unsigned j;
        if (S.nl[i] <= n) return 0;
        for (j = 0; j < K + 2; j++)
                if (j < n && (j >= K || up(S.nm[i][j]) != up(t[j]))) return 0;
        return 1;
}

/* first enabled command whose name equals the typed name, else the unique enabled command it abbreviates, else -1 */
static int resolve(const unsigned char *t, unsigned n)
{
        unsigned i;
        int found = -1, cnt = 0;
        for (i = 0; i < M; i++)
                if (cmd_enabled(i) && name_eq(i, t, n))
                        return (int)i;
        for (i = 0; i < M; i++)
                if (cmd_enabled(i) && name_prefix(i, t, n)) { found = (int)i; cnt++; }
        return cnt == 1 ? found : -1;
}

static void scen_run(void)
{
        static const char shape[] = SHAPESTR;
        unsigned char typed[L + 1];
        unsigned i, tn = 0, p, nargs = 0, argp = 0;
        int k, sel = -1, kind = CAT_CMD_TYPE_RUN, implicit_hit = 0, has_q = 0;
        int suffix_eq = 0, suffix_q = 0;
        cat_status r = CAT_STATUS_BUSY;
        uint8_t v0_before, v1_before;

        world_assume();
        ASSUME(S.in_len == L);
        for (i = 0; i < L; i++)
                ASSUME(shape_ok(shape[i], S.in[i]));
        world_build();
        v0_before = G_v0;
        v1_before = G_v1;

        /* ---- reference --------------------------------------------------------------------- */
        for (i = 0; i < L + 1; i++) typed[i] = 0;
        p = 2;
        for (i = 2; i < L; i++) {
                if (shape[i] == 'n' && !implicit_hit) {
                        unsigned c;
                        typed[tn++] = S.in[i];
                        p = i + 1;
                        /* implicit write: the typed prefix equals an enabled implicit-write command's name */
                        for (c = 0; c < M; c++)
                                if (cmd_enabled(c) && (S.fl[c] & F_IMPLICIT) && name_eq(c, typed, tn))
                                        implicit_hit = 1;
                }
        }
        if (implicit_hit) {
                kind = CAT_CMD_TYPE_WRITE;
                sel = resolve(typed, tn); /* an exact match exists, so this is the first exact match */
                argp = p;
        } else {
                sel = (tn > 0) ? resolve(typed, tn) : -1;
                if (shape[p] == '?') { kind = CAT_CMD_TYPE_READ; suffix_q = 1; }
                else if (shape[p] == '=') { suffix_eq = 1; kind = CAT_CMD_TYPE_WRITE; argp = p + 1; }
        }
        if (kind == CAT_CMD_TYPE_WRITE) {
                int first = -1;
                for (i = 0; i < L; i++)
                        if (i >= argp && S.in[i] != '\n' && S.in[i] != '\r') {
                                if (first < 0) first = S.in[i];
                                nargs++;
                        }
                /* a '?' as first argument byte asks for TEST when the selected command can answer it (test handler
                 * or variables) and is not implicit-write; anything after it is a syntax error (nothing runs) */
                if (first == '?' && sel >= 0 && ((S.hm[sel] & H_TEST) || G_cmd[sel].var_num > 0) && !(S.fl[sel] & F_IMPLICIT)) {
                        kind = CAT_CMD_TYPE_TEST;
                        has_q = 1;
                }
        }
        (void)suffix_q; (void)suffix_eq; (void)has_q;

        /* ---- run ---------------------------------------------------------------------------- */
        for (k = 0; k < N; k++) {
                W.k = k;
                r = hinted_service(0, k, &W.at);
        }
        CHK(C02, r == CAT_STATUS_OK && W.in_pos == S.in_len && W.u_state == 0, "line completely processed within the step bound");

        /* ---- C02: only handlers of the selected command, of the selected kind --------------- */
        for (i = 0; i < NH; i++) {
                if (i < W.hl_n) {
                        CHK(C02, sel >= 0 && W.hl_cmd[i] == (unsigned)sel, "handler of a command other than the resolved one was invoked");
                        CHK(C02, W.hl_kind[i] == (unsigned)kind, "handler of a request type other than the one fixed by the suffix was invoked");
                        CHK(C09, W.hl_cmd[i] < M && cmd_enabled(W.hl_cmd[i]), "handler of a disabled command (or of a command in a disabled group) was invoked");
                        CHK(C09, W.hl_cmd[i] < M && (!(S.fl[W.hl_cmd[i]] & F_ONLY_TEST) || W.hl_kind[i] == CAT_CMD_TYPE_TEST),
                            "a test-only command ran a handler other than test");
                }
        }
        CHK(C02, W.hl_n <= NH, "handler log overflow (terminal codes: at most one invocation expected)");
        CHK(C02, W.hl_n <= 1, "terminal return code yet the handler was invoked again");
        if (sel < 0 && tn > 0) {
                CHK(C02, W.hl_n == 0, "no match / ambiguous abbreviation: nothing may be invoked");
                CHK(C02, W.units == 1 && W.u_len == 5 && G_pay[0] == 'E', "no match / ambiguous abbreviation is answered with ERROR");
        }
        /* expected invocation where nothing but dispatch is involved */
        if (sel >= 0 && kind == CAT_CMD_TYPE_RUN) {
                int expect = !(S.fl[sel] & F_ONLY_TEST) && (S.hm[sel] & H_RUN);
                CHK(C02, (W.hl_n == 1) == (expect != 0), "run handler invoked iff the command has one and is not test-only");
                if (!expect)
                        CHK(C09, W.units == 1 && W.u_len == 5 && G_pay[0] == 'E', "run form without handler (or test-only) is answered with ERROR");
        }
        if (sel >= 0 && kind == CAT_CMD_TYPE_WRITE && G_cmd[sel].var_num == 0) {
                int expect = !(S.fl[sel] & F_ONLY_TEST) && (S.hm[sel] & H_WRITE);
                CHK(C02, (W.hl_n == 1) == (expect != 0), "write handler of a variable-less command invoked iff present and not test-only");
                if (!expect)
                        CHK(C09, W.units == 1 && W.u_len == 5 && G_pay[0] == 'E', "write form with neither handler nor variable is answered with ERROR");
        }
        /* the request type is also visible in the answer: write and run requests are answered by a result code alone
         * (handlers return terminal codes here); a data line means the line was served as READ or TEST instead */
        if (sel >= 0 && (kind == CAT_CMD_TYPE_WRITE || kind == CAT_CMD_TYPE_RUN))
                CHK(C02, W.units == 1 && !W.malformed, "a write / run request was answered with a data line (served as another request type)");
        if (sel >= 0 && kind == CAT_CMD_TYPE_READ && G_cmd[sel].var_num == 0) {
                int expect = !(S.fl[sel] & F_ONLY_TEST) && (S.hm[sel] & H_READ);
                /* the name must fit: "<name>=" + NUL within the command half */
                if (S.nl[sel] + 1 < cmd_half_cap())
                        CHK(C02, (W.hl_n == 1) == (expect != 0), "read handler of a variable-less command invoked iff present and not test-only");
                if (!expect)
                        CHK(C09, W.units == 1 && W.u_len == 5 && G_pay[0] == 'E', "read form with neither handler nor variable is answered with ERROR");
        }
        if (sel >= 0 && (S.fl[sel] & F_ONLY_TEST) && kind != CAT_CMD_TYPE_TEST)
                CHK(C09, W.hl_n == 0 && W.units == 1 && W.u_len == 5 && G_pay[0] == 'E', "test-only command answers anything but =? with ERROR");

        /* ---- C09: variables and callbacks of commands that were not selected are untouched ----- */
        if (M > 1 && sel != 1) {
                CHK(C09, G_v0 == v0_before && W.vw_n[0] == 0 && W.vr_n[0] == 0, "variable of a command that was not selected changed or its callback ran");
        }
        if (M > 2 && sel != 2) {
                CHK(C09, G_v1 == v1_before && W.vw_n[1] == 0 && W.vr_n[1] == 0, "variable of a command that was not selected changed or its callback ran");
        }
        if (M > 1 && !cmd_enabled(1))
                CHK(C09, G_v0 == v0_before && W.vw_n[0] == 0 && W.vr_n[0] == 0, "variable of a disabled command changed or its callback ran");
        if (M > 2 && !cmd_enabled(2))
                CHK(C09, G_v1 == v1_before && W.vw_n[1] == 0 && W.vr_n[1] == 0, "variable of a disabled command changed or its callback ran");
        if (kind != CAT_CMD_TYPE_WRITE)
                CHK(C09, G_v0 == v0_before && G_v1 == v1_before && W.vw_n[0] == 0 && W.vw_n[1] == 0, "a variable changed without a write request");
        if (sel >= 0 && (S.fl[sel] & F_ONLY_TEST))
                CHK(C09, G_v0 == v0_before && G_v1 == v1_before, "a test-only command modified a variable");

        WITNESS(W.hl_n == 1, "a-handler-ran");
        WITNESS(W.hl_n == 1 && sel >= 0 && tn < S.nl[sel], "abbreviation-resolved");
        WITNESS(sel < 0 && tn > 0, "no-match");
        WITNESS(implicit_hit && W.hl_n == 1, "implicit-write-dispatched");
        WITNESS(kind == CAT_CMD_TYPE_WRITE && sel == 1 && G_v0 != v0_before, "variable-written");
}

#ifndef __CPROVER__
static void scen_sample(void)
{
        static const char shape[] = SHAPESTR;
        unsigned p, ci = rnd(M), ni = 0;
        world_sample();
        if (rnd(3) == 0) { /* make prefix relations likely */
                unsigned a = rnd(M), b = rnd(M);
                S.nm[a][0] = S.nm[b][0];
                if (rnd(2) && K > 1) S.nm[a][1] = S.nm[b][1];
        }
        for (p = 0; p < L; p++) {
                S.in[p] = shape_sample(shape[p], ci, ni);
                if (shape[p] == 'n') ni++;
                if (shape[p] == 'a' && rnd(2)) S.in[p] = RND_PICK("0123456789-?");
        }
        S.in_len = L;
}
#endif
