/*
 * s_step.c - E2 step induction: ONE cat_service() call from an ARBITRARY object state that satisfies
 * the representation invariant RI (DESIGN.md section 4), in an arbitrary environment, with the
 * command FSM state and the event FSM state fixed per job (STATE, USTATE) so that symbolic
 * execution follows one switch arm of each machine. RI holds after cat_init (job s_init) and is
 * re-established by every call, so each step obligation holds along call histories of any length.
 *
 * Descriptor family: 2 groups; +A (no variable, four handlers), +B (five variables, one of each
 * type, symbolic data_size / access / callbacks, description), +CD (one uint8 variable, may be
 * implicit-write); symbolic flags; working buffer shared (command half 6..CAPC_MAX) or separate
 * event buffer of 0..UB bytes (SEP=1); ring capacity CAT_UNSOLICITED_CMD_BUFFER_SIZE (build macro).
 *
 * Obligations (switched by -DPROP_Cxx):
 *  C03  every CBMC built-in check inside cat.c, RI afterwards, canaries around every variable,
 *       the event buffer untouched unless the event FSM is in a state that formats into it
 *       (and the command buffer likewise)
 *  C08  read-only variables bit-identical afterwards
 *  C11  at most one io->write attempt, only by a machine that is in FLUSH_IO_WRITE, offering the
 *       byte under its own cursor; cursor advances by one iff accepted; never both machines flushing
 *  C12  a refused read / write leaves the refused machine, the buffers and the variables unchanged
 *  C13  the event ring is a FIFO: only the idle event FSM pops, exactly the oldest entry
 *  C14  while held: no io->read, result code only after a release request, matching its status
 *  C15  (CALLS=2) if the call returned OK, an immediately repeated call with no input does nothing
 *  C18  cat_is_busy() == OK beforehand implies this call (no input, no trigger) attempts no write
 */
#ifndef STATE
#define STATE 0
#endif
#ifndef USTATE
#define USTATE 0
#endif
#ifndef SEP
#define SEP 0
#endif
#ifndef CAPC_MAX
#define CAPC_MAX 12      /* largest command-buffer capacity in the family */
#endif
#ifndef UB
#define UB 8             /* largest separate event buffer */
#endif
#ifndef CALLS
#define CALLS 1
#endif
#ifndef RINGCAP
#define RINGCAP 1
#endif
#ifndef VSEL
#define VSEL (-1)        /* >= 0: the command FSM's current variable is pinned to W.var[VSEL] (one job per variable) */
#endif
#ifndef UVSEL
#define UVSEL (-1)       /* same for the event FSM */
#endif
#ifndef BUFSZ
#define BUFSZ 0          /* > 0: desc.buf_size fixed (the event half of a shared buffer then starts at a concrete offset) */
#endif
#ifndef MUTEX
#define MUTEX 0          /* 1: a mutex interface is configured; lock / unlock results are symbolic */
#endif
#define MAXDS 8
#define NCMD 3
#define LENB 0x7fffffffu  /* "fewer than 2^31 name characters in one line" (see RI, length) */

#if SEP
#define BUFTOTAL CAPC_MAX
#else
#define BUFTOTAL (2 * CAPC_MAX + 1)
#endif

struct scen {
        /* descriptor */
        unsigned char bufsize;          /* desc.buf_size */
        unsigned char ubsize;           /* separate event buffer size (SEP) */
        unsigned char fl[NCMD];
        unsigned char hm[NCMD];
        unsigned char gd[2];
        unsigned char desc_present;
        unsigned char vds[5];           /* data sizes of +B's variables */
        unsigned char vacc[6];
        unsigned char vcb[6];           /* callbacks present: bit0 write bit1 read */
        unsigned char vname[6];
        /* object: command side */
        unsigned char index[4], partial[4], length[4], position[4], wsize[4];
        unsigned char cmdsel, varsel, cmdtype, curch, crflag, holdflag, holdstatus, wbufsel, wstate, wafter, implflag;
        /* object: event side */
        unsigned char uindex[4], uposition[4];
        unsigned char ucmdsel, uvarsel, ucmdtype, uwbufsel, uwstate, uwafter;
        unsigned char rhead, rtail, rcount;
        unsigned char rcmd[8], rtype[8];
        /* memory */
        unsigned char buf[BUFTOTAL];
        unsigned char ubuf[UB + 1];
        unsigned char vmem[6][MAXDS + 4];
        /* environment */
        unsigned char rd_ok[CALLS], rd_ch[CALLS];
        unsigned char cbt_where, cbt_cmd, cbt_kind;      /* CB_TRIGGER: an event triggered from inside a callback of the first call (0 none, 1 io->read, 2 command/event handler) */
        unsigned char wr_ret[CALLS][4];
        unsigned char hret[2][4];       /* return values of command handlers (per call order) */
        unsigned char hbuf[CAPC_MAX + 1], hnul, hsize[4], hmod;
        unsigned char vret[4][4];       /* return values of variable callbacks */
        unsigned char lock_ret[CALLS][4], unlock_ret[CALLS][4];
};
#define SCEN_DEFINED
#include "common.h"

/* ---- world ------------------------------------------------------------------------------------ */
static struct {
        struct cat_object at;
        struct cat_descriptor desc;
        struct cat_command_group grp[2];
        struct cat_command_group *grps[2];
        struct cat_command cmd[NCMD];
        struct cat_variable var[6];       /* [0..4] belong to +B, [5] to +CD */
        struct cat_io_interface io;
        int call;                         /* index of the current cat_service call */
        unsigned reads, writes, hcalls, vcalls;
        int cbt_done;
        int last_read_ret;
        unsigned vw_calls; size_t vw_last;      /* variable WRITE callback: invocations and the length it was told last */
        int wr_byte[2], wr_ret[2];
        unsigned hidx, vidx;
        struct cat_mutex_interface mx;
        int locks, unlocks, locked, cb_unlocked, lock_while_locked, touched_before_lock, unlock_unlocked;
} W;
static uint8_t G_buf[BUFTOTAL];
static uint8_t G_ubuf[UB + 1];
static union { uint8_t b[MAXDS + 4]; uint32_t align; } G_vm[6];   /* variable storage: data_size bytes, then canaries */
static const char *NL0, *NL1;                                      /* "\r\n" and "\n" as get_new_line_chars returns them */

static int bad_handler_args;
static void world_reset(void)
{
        WORLD_ZERO(W);
        WORLD_ZERO(G_buf);
        WORLD_ZERO(G_ubuf);
        WORLD_ZERO(G_vm);
        bad_handler_args = 0;
}

static int32_t s32(const unsigned char *b) { return (int32_t)vf_u32(b); }

static struct cat_object SNAP;     /* object before the call */
static struct cat_object AT_UNLOCK;
static int same_core(const struct cat_object *a, const struct cat_object *b)
{
        return a->state == b->state && a->index == b->index && a->length == b->length && a->position == b->position &&
               a->cmd == b->cmd && a->var == b->var && a->cmd_type == b->cmd_type && a->cr_flag == b->cr_flag &&
               a->hold_state_flag == b->hold_state_flag && a->hold_exit_status == b->hold_exit_status && a->partial_cntr == b->partial_cntr &&
               a->write_buf == b->write_buf && a->write_state == b->write_state && a->write_state_after == b->write_state_after &&
               a->current_char == b->current_char && a->implicit_write_flag == b->implicit_write_flag && a->write_size == b->write_size &&
               a->unsolicited_fsm.state == b->unsolicited_fsm.state && a->unsolicited_fsm.cmd == b->unsolicited_fsm.cmd &&
               a->unsolicited_fsm.var == b->unsolicited_fsm.var && a->unsolicited_fsm.index == b->unsolicited_fsm.index &&
               a->unsolicited_fsm.cmd_type == b->unsolicited_fsm.cmd_type && a->unsolicited_fsm.position == b->unsolicited_fsm.position &&
               a->unsolicited_fsm.write_buf == b->unsolicited_fsm.write_buf && a->unsolicited_fsm.write_state == b->unsolicited_fsm.write_state &&
               a->unsolicited_fsm.write_state_after == b->unsolicited_fsm.write_state_after &&
               a->unsolicited_fsm.unsolicited_cmd_buffer_head == b->unsolicited_fsm.unsolicited_cmd_buffer_head &&
               a->unsolicited_fsm.unsolicited_cmd_buffer_tail == b->unsolicited_fsm.unsolicited_cmd_buffer_tail &&
               a->unsolicited_fsm.unsolicited_cmd_buffer_items_count == b->unsolicited_fsm.unsolicited_cmd_buffer_items_count;
}
static int m_lock(void)
{
        int r = (W.call < CALLS) ? s32(S.lock_ret[W.call]) : 0;
        W.locks++;
        if (W.locked) W.lock_while_locked = 1;
        if (W.call == 0 && !same_core(&W.at, &SNAP)) W.touched_before_lock = 1;
        if (r == 0) W.locked = 1;
        return r;
}
static int m_unlock(void)
{
        if (!W.locked) W.unlock_unlocked = 1;
        W.unlocks++;
        W.locked = 0;
        AT_UNLOCK = W.at;
        return (W.call < CALLS) ? s32(S.unlock_ret[W.call]) : 0;
}
#define CB_GUARD() do { if (MUTEX && !W.locked) W.cb_unlocked = 1; } while (0)

/* CB_TRIGGER (C15 jobs, no mutex): the application may call cat_trigger_unsolicited_*() from inside a callback - the unit tests do
 * it from command handlers. One such trigger, in the first call, from io->read or from a handler, on a symbolic command / kind.
 * Off in audit mode (the queue obligations of C13 describe calls without re-entrant triggers). */
#if defined(CB_TRIGGER) && !MUTEX && !defined(PROP_ALL)
static void cb_trigger(int where)
{
        if (W.call == 0 && !W.cbt_done && S.cbt_where == where) {
                W.cbt_done = 1;
                if (S.cbt_kind & 1) (void)cat_trigger_unsolicited_read(&W.at, (S.cbt_cmd % 3) == 0 ? &W.cmd[0] : (S.cbt_cmd % 3) == 1 ? &W.cmd[1] : &W.cmd[2]);
                else (void)cat_trigger_unsolicited_test(&W.at, (S.cbt_cmd % 3) == 0 ? &W.cmd[0] : (S.cbt_cmd % 3) == 1 ? &W.cmd[1] : &W.cmd[2]);
        }
}
#else
#define cb_trigger(where) ((void)0)
#endif

static int io_read(char *ch)
{
        CB_GUARD();
        cb_trigger(1);
        W.reads++;
        /* a finite stream: at most three bytes are available within one call (the code under test reads once per call;
         * a variant that loops over io->read must still terminate here) */
        if (W.call < CALLS && S.rd_ok[W.call] && W.reads <= 3 * (W.call + 1)) { *ch = (char)S.rd_ch[W.call]; W.last_read_ret = 1; return 1; }
        W.last_read_ret = 0;
        return 0;
}
static int io_write(char ch)
{
        int r = (W.call < CALLS) ? s32(S.wr_ret[W.call]) : 0;
        CB_GUARD();
        if (W.writes < 2) { W.wr_byte[W.writes] = (unsigned char)ch; W.wr_ret[W.writes] = r; }
        W.writes++;
        return r;
}
static cat_return_state env_code(void)
{
        int r = (W.hidx < 2) ? s32(S.hret[W.hidx]) : -1;
#ifdef UHRET
        /* event-handler jobs fix the handler's return code per job: a symbolic code would keep the (excluded) HOLD
         * arm alive in symbolic execution, which overwrites the command FSM state and un-pins the command switch */
        if (W.hidx == 0) r = (UHRET);
#endif
        CB_GUARD();
        cb_trigger(2);
        W.hidx++;
        W.hcalls++;
        return (cat_return_state)r;
}
static size_t cap_c(void);
static size_t cap_u(void);
static uint8_t *ubuf_ptr(void);
static void env_rewrite(uint8_t *data, size_t *data_size, size_t max)
{
        /* C06: a read/test handler is given the buffer of the machine that calls it, that machine's cursor and the TRUE
         * capacity of that buffer (shared half or separate event buffer) */
        if (!((data == G_buf && max == cap_c() && data_size == &W.at.position) ||
              (data == ubuf_ptr() && max == cap_u() && data_size == &W.at.unsolicited_fsm.position)))
                bad_handler_args = 1;
        /* contract: a read/test handler may rewrite data[0..max) and *data_size but leaves a NUL inside */
        size_t i;
        if (S.hmod && max > 0) {
                for (i = 0; i < CAPC_MAX + 1; i++)
                        if (i < max) data[i] = S.hbuf[i];
                {
                        size_t n = S.hnul;      /* no modulo by a symbolic value: that would cost a 64-bit divider */
                        if (n >= max) n = max - 1;
                        data[n] = 0;
                }
                *data_size = vf_u32(S.hsize);
        }
}
static cat_return_state h_write(const struct cat_command *c, const uint8_t *d, const size_t n, const size_t a) { (void)c; (void)d; (void)n; (void)a; return env_code(); }
static cat_return_state h_run(const struct cat_command *c) { (void)c; return env_code(); }
static cat_return_state h_read(const struct cat_command *c, uint8_t *d, size_t *n, const size_t m) { (void)c; env_rewrite(d, n, m); return env_code(); }
static cat_return_state h_test(const struct cat_command *c, uint8_t *d, size_t *n, const size_t m) { (void)c; env_rewrite(d, n, m); return env_code(); }
static int v_cb(void)
{
        int r = (W.vidx < 4) ? s32(S.vret[W.vidx]) : 0;
        CB_GUARD();
        W.vidx++;
        W.vcalls++;
        return r;
}
static int v_write(const struct cat_variable *v, const size_t n) { (void)v; W.vw_calls++; W.vw_last = n; return v_cb(); }
static int v_read(const struct cat_variable *v) { (void)v; return v_cb(); }

#define BSZ (BUFSZ > 0 ? BUFSZ : S.bufsize)
static size_t cap_c(void) { return SEP ? BSZ : (size_t)(BSZ >> 1); }
static size_t cap_u(void) { return SEP ? S.ubsize : (size_t)(BSZ >> 1); }
static uint8_t *ubuf_ptr(void) { return SEP ? G_ubuf : &G_buf[BSZ >> 1]; }

static const struct cat_command *sel_cmd(unsigned char s) { return (s < NCMD) ? &W.cmd[s] : NULL; }
static const struct cat_variable *sel_var(unsigned char s) { return (s < 6) ? &W.var[s] : NULL; }
static int in_table(const struct cat_command *c) { return c == &W.cmd[0] || c == &W.cmd[1] || c == &W.cmd[2]; }

static void build_descriptor(void)
{
        unsigned i;
        static const cat_var_type types[6] = { CAT_VAR_INT_DEC, CAT_VAR_UINT_DEC, CAT_VAR_NUM_HEX, CAT_VAR_BUF_HEX, CAT_VAR_BUF_STRING, CAT_VAR_UINT_DEC };
        static const char *vnames[6] = { "i", "u", "h", "b", "s", "c" };
        W.cmd[0].name = "+A"; W.cmd[1].name = "+B"; W.cmd[2].name = "+CD";
        for (i = 0; i < NCMD; i++) {
                W.cmd[i].write = (S.hm[i] & 1) ? h_write : NULL;
                W.cmd[i].read = (S.hm[i] & 2) ? h_read : NULL;
                W.cmd[i].run = (S.hm[i] & 4) ? h_run : NULL;
                W.cmd[i].test = (S.hm[i] & 8) ? h_test : NULL;
                W.cmd[i].disable = (S.fl[i] & 1) != 0;
                W.cmd[i].only_test = (S.fl[i] & 2) != 0;
                W.cmd[i].implicit_write = (S.fl[i] & 4) != 0;
                W.cmd[i].need_all_vars = (S.fl[i] & 8) != 0;
        }
        W.cmd[1].description = (S.desc_present & 1) ? "dsc" : NULL;
        W.cmd[0].description = (S.desc_present & 2) ? "help" : NULL;    /* the variable-less command: its TEST answer is name= + description */
        for (i = 0; i < 6; i++) {
                W.var[i].type = types[i];
                W.var[i].data = &G_vm[i].b[0]; /* aligned base; the bytes behind data_size are canaries */
                W.var[i].data_size = (i < 5) ? S.vds[i] : 1;
                W.var[i].access = (cat_var_access)S.vacc[i];
                W.var[i].name = S.vname[i] ? vnames[i] : NULL;
                W.var[i].write = (S.vcb[i] & 1) ? v_write : NULL;
                W.var[i].read = (S.vcb[i] & 2) ? v_read : NULL;
        }
        W.cmd[0].var = &W.var[5]; W.cmd[0].var_num = 0;   /* "no variables": valid pointer, zero count */
        W.cmd[1].var = &W.var[0]; W.cmd[1].var_num = 5;
        W.cmd[2].var = &W.var[5]; W.cmd[2].var_num = 1;
        W.grp[0].cmd = &W.cmd[0]; W.grp[0].cmd_num = 2; W.grp[0].disable = S.gd[0] != 0; W.grps[0] = &W.grp[0];
        W.grp[1].cmd = &W.cmd[2]; W.grp[1].cmd_num = 1; W.grp[1].disable = S.gd[1] != 0; W.grps[1] = &W.grp[1];
        W.desc.cmd_group = W.grps; W.desc.cmd_group_num = 2;
        W.desc.buf = G_buf; W.desc.buf_size = BUFSZ > 0 ? BUFSZ : S.bufsize;
#if SEP
        W.desc.unsolicited_buf = G_ubuf; W.desc.unsolicited_buf_size = S.ubsize;
#endif
        W.io.read = io_read; W.io.write = io_write;
        W.mx.lock = m_lock; W.mx.unlock = m_unlock;
        vf_cmd_base = W.cmd; vf_cmd_n = NCMD;
}

static void assume_descriptor(void)
{
        unsigned i;
#if BUFSZ > 0
        ASSUME(S.bufsize == BUFSZ);
#endif
#if SEP
        ASSUME(S.bufsize >= 6 && S.bufsize <= CAPC_MAX);
        ASSUME(S.ubsize <= UB);
#else
        ASSUME(S.bufsize >= 12 && S.bufsize <= 2 * CAPC_MAX + 1);
#endif
        for (i = 0; i < NCMD; i++) {
                ASSUME(S.fl[i] < 16 && S.hm[i] < 16);
                if (S.fl[i] & 4) ASSUME((S.hm[i] & 14) == 0);
        }
        ASSUME((S.fl[0] & 4) == 0 && (S.fl[1] & 4) == 0); /* only +CD may be implicit-write in this family */
        ASSUME(S.gd[0] <= 1 && S.gd[1] <= 1 && S.desc_present <= 3);
        for (i = 0; i < 3; i++) ASSUME(S.vds[i] >= 1 && S.vds[i] <= 4);          /* numeric: 1,2,4 and the unsupported 3 */
        for (i = 3; i < 5; i++) ASSUME(S.vds[i] >= 1 && S.vds[i] <= MAXDS);
        for (i = 0; i < 6; i++) ASSUME(S.vacc[i] <= 2 && S.vcb[i] <= 3 && S.vname[i] <= 1);
        for (i = 0; i < CALLS; i++) ASSUME(S.rd_ok[i] <= 1);
        ASSUME(S.hmod <= 1);
}

/* ---- representation invariant ------------------------------------------------------------------ */
static int nul_in(const uint8_t *b, size_t from, size_t cap)
{
        size_t i;
        int ok = 0;
        for (i = 0; i < CAPC_MAX + 1; i++)
                if (i >= from && i < cap && b[i] == 0)
                        ok = 1;
        return ok;
}

static int var_of(const struct cat_command *c, const struct cat_variable *v, size_t index)
{
        return in_table(c) && index < c->var_num && v == &c->var[index];
}

static int after_ok_cmd(cat_state a, struct cat_object *o)
{
        switch (a) {
        case CAT_STATE_AFTER_FLUSH_RESET:
        case CAT_STATE_AFTER_FLUSH_OK:
                return 1;
        case CAT_STATE_AFTER_FLUSH_FORMAT_READ_ARGS:
        case CAT_STATE_AFTER_FLUSH_FORMAT_TEST_ARGS:
                return in_table(o->cmd);
        case CAT_STATE_PRINT_CMD:
                return o->index < NCMD && (int)o->cmd_type >= -1 && (int)o->cmd_type <= 4;
        default:
                return 0;
        }
}

static int ri_cmd(struct cat_object *o, unsigned lenb)
{
        size_t cap = get_atcmd_buf_size(o);
        const uint8_t *buf = G_buf;
        if (o->commands_num != NCMD) return 0;
        if ((o->hold_state_flag != false) != (o->state == CAT_STATE_HOLD)) return 0;
        if (o->implicit_write_flag != false && o->state != CAT_STATE_UPDATE_COMMAND_STATE) return 0;
        switch (o->state) {
        case CAT_STATE_IDLE:
                return o->cr_flag == false;
        case CAT_STATE_PARSE_COMMAND_CHAR:
                return o->index < NCMD && o->length <= lenb;
        case CAT_STATE_UPDATE_COMMAND_STATE:
                return o->index < NCMD && o->length >= 1 && o->length <= lenb;
        case CAT_STATE_SEARCH_COMMAND:
                return o->index < NCMD && (o->cmd == NULL || in_table(o->cmd));
        case CAT_STATE_COMMAND_FOUND:
        case CAT_STATE_WAIT_TEST_ACKNOWLEDGE:
        case CAT_STATE_AFTER_FLUSH_FORMAT_READ_ARGS:
        case CAT_STATE_AFTER_FLUSH_FORMAT_TEST_ARGS:
                return in_table(o->cmd);
        case CAT_STATE_PARSE_COMMAND_ARGS:
                return in_table(o->cmd) && o->length < cap && buf[o->length] == 0;
        case CAT_STATE_PARSE_WRITE_ARGS:
                return var_of(o->cmd, o->var, o->index) && o->position < cap && nul_in(buf, o->position, cap);
        case CAT_STATE_FORMAT_READ_ARGS:
        case CAT_STATE_FORMAT_TEST_ARGS:
                return var_of(o->cmd, o->var, o->index) && o->position <= cap;
        case CAT_STATE_WRITE_LOOP:
                return in_table(o->cmd) && o->cmd->write != NULL;
        case CAT_STATE_READ_LOOP:
                return in_table(o->cmd) && o->cmd->read != NULL && nul_in(buf, 0, cap);
        case CAT_STATE_TEST_LOOP:
                return in_table(o->cmd) && o->cmd->test != NULL && nul_in(buf, 0, cap);
        case CAT_STATE_RUN_LOOP:
                return in_table(o->cmd) && o->cmd->run != NULL;
        case CAT_STATE_FLUSH_IO_WRITE_WAIT:
        case CAT_STATE_FLUSH_IO_WRITE:
                if (!after_ok_cmd(o->write_state_after, o)) return 0;
                if (o->write_buf == (const char *)buf) {
                        if (!(o->write_state == CAT_WRITE_STATE_MAIN_BUFFER || o->write_state == CAT_WRITE_STATE_AFTER)) return 0;
                        return o->position < cap && nul_in(buf, o->position, cap);
                }
                if (o->write_buf == NL0) { if (o->position > 2) return 0; }
                else if (o->write_buf == NL1) { if (o->position > 1) return 0; }
                else return 0;
                if (o->write_state == CAT_WRITE_STATE_BEFORE) return nul_in(buf, 0, cap);
                return o->write_state == CAT_WRITE_STATE_AFTER;
        case CAT_STATE_PRINT_CMD:
                return o->index < NCMD && (int)o->cmd_type >= -1 && (int)o->cmd_type <= 4;
        case CAT_STATE_ERROR:
        case CAT_STATE_PARSE_PREFIX:
        case CAT_STATE_WAIT_READ_ACKNOWLEDGE:
        case CAT_STATE_COMMAND_NOT_FOUND:
        case CAT_STATE_HOLD:
        case CAT_STATE_AFTER_FLUSH_RESET:
        case CAT_STATE_AFTER_FLUSH_OK:
                return 1;
        default:
                return 0;
        }
}

static int after_ok_evt(cat_unsolicited_state a, struct cat_unsolicited_fsm *u)
{
        switch (a) {
        case CAT_UNSOLICITED_STATE_AFTER_FLUSH_RESET:
        case CAT_UNSOLICITED_STATE_AFTER_FLUSH_OK:
                return 1;
        case CAT_UNSOLICITED_STATE_AFTER_FLUSH_FORMAT_READ_ARGS:
        case CAT_UNSOLICITED_STATE_AFTER_FLUSH_FORMAT_TEST_ARGS:
                return in_table(u->cmd);
        default:
                return 0;
        }
}

static int ri_evt(struct cat_object *o)
{
        struct cat_unsolicited_fsm *u = &o->unsolicited_fsm;
        size_t cap = get_unsolicited_buf_size(o), i;
        const uint8_t *buf = (const uint8_t *)get_unsolicited_buf(o);
        /* ring */
        if (!(u->unsolicited_cmd_buffer_head < RINGCAP && u->unsolicited_cmd_buffer_tail < RINGCAP && u->unsolicited_cmd_buffer_items_count <= RINGCAP)) return 0;
        if (u->unsolicited_cmd_buffer_tail != (u->unsolicited_cmd_buffer_head + u->unsolicited_cmd_buffer_items_count) % RINGCAP) return 0;
        for (i = 0; i < RINGCAP; i++) {
                size_t slot = (u->unsolicited_cmd_buffer_head + i) % RINGCAP;
                if (i < u->unsolicited_cmd_buffer_items_count) {
                        if (!in_table(u->unsolicited_cmd_buffer[slot].cmd)) return 0;
                        if (!(u->unsolicited_cmd_buffer[slot].type == CAT_CMD_TYPE_READ || u->unsolicited_cmd_buffer[slot].type == CAT_CMD_TYPE_TEST)) return 0;
                }
        }
        switch (u->state) {
        case CAT_UNSOLICITED_STATE_IDLE:
                /* idle = no event in progress (what cat_get_processed_command / cat_is_unsolicited_event_buffered report) */
                return u->cmd == NULL && u->cmd_type == CAT_CMD_TYPE_NONE;
        case CAT_UNSOLICITED_STATE_AFTER_FLUSH_RESET:
        case CAT_UNSOLICITED_STATE_AFTER_FLUSH_OK:
                return 1;
        case CAT_UNSOLICITED_STATE_FORMAT_READ_ARGS:
        case CAT_UNSOLICITED_STATE_FORMAT_TEST_ARGS:
                return var_of(u->cmd, u->var, u->index) && u->position <= cap;
        case CAT_UNSOLICITED_STATE_READ_LOOP:
                return in_table(u->cmd) && u->cmd->read != NULL && nul_in(buf, 0, cap);
        case CAT_UNSOLICITED_STATE_TEST_LOOP:
                return in_table(u->cmd) && u->cmd->test != NULL && nul_in(buf, 0, cap);
        case CAT_UNSOLICITED_STATE_FLUSH_IO_WRITE_WAIT:
        case CAT_UNSOLICITED_STATE_FLUSH_IO_WRITE:
                if (!after_ok_evt(u->write_state_after, u)) return 0;
                if (u->write_buf == (const char *)buf && cap > 0) {
                        if (u->write_state != CAT_WRITE_STATE_MAIN_BUFFER) return 0;
                        return u->position < cap && nul_in(buf, u->position, cap);
                }
                if (u->write_buf == NL0) { if (u->position > 2) return 0; }
                else if (u->write_buf == NL1) { if (u->position > 1) return 0; }
                else return 0;
                if (u->write_state == CAT_WRITE_STATE_BEFORE) return nul_in(buf, 0, cap);
                return u->write_state == CAT_WRITE_STATE_AFTER;
        case CAT_UNSOLICITED_STATE_AFTER_FLUSH_FORMAT_READ_ARGS:
        case CAT_UNSOLICITED_STATE_AFTER_FLUSH_FORMAT_TEST_ARGS:
                return in_table(u->cmd);
        default:
                return 0;
        }
}

static int ri(struct cat_object *o, unsigned lenb)
{
        if (o->state == CAT_STATE_FLUSH_IO_WRITE && o->unsolicited_fsm.state == CAT_UNSOLICITED_STATE_FLUSH_IO_WRITE)
                return 0;
        return ri_cmd(o, lenb) && ri_evt(o);
}

/* ---- symbolic pre-state -------------------------------------------------------------------------- */
static const char *sel_wbuf(unsigned char s, const char *own)
{
        return s == 0 ? NL0 : s == 1 ? NL1 : s == 2 ? own : NULL;
}

static void build_state(void)
{
        unsigned i, j;
        struct cat_object *o = &W.at;
        struct cat_unsolicited_fsm *u = &o->unsolicited_fsm;

        cat_init(o, &W.desc, &W.io, MUTEX ? &W.mx : NULL);
        /* the two newline strings exactly as the library hands them out */
        o->cr_flag = true;  NL0 = get_new_line_chars(o);
        o->cr_flag = false; NL1 = get_new_line_chars(o);

        for (i = 0; i < BUFTOTAL; i++) G_buf[i] = S.buf[i];
        for (i = 0; i < UB + 1; i++) G_ubuf[i] = S.ubuf[i];
        for (i = 0; i < 6; i++)
                for (j = 0; j < MAXDS + 4; j++)
                        G_vm[i].b[j] = S.vmem[i][j];

        o->index = vf_u32(S.index); o->partial_cntr = vf_u32(S.partial); o->length = vf_u32(S.length);
        o->position = vf_u32(S.position); o->write_size = vf_u32(S.wsize);
        o->cmd = sel_cmd(S.cmdsel); o->var = sel_var(S.varsel);
#if VSEL >= 0
        o->var = &W.var[VSEL]; o->cmd = (VSEL < 5) ? &W.cmd[1] : &W.cmd[2]; o->index = (VSEL < 5) ? VSEL : 0;
#endif
        o->cmd_type = (cat_cmd_type)((int)(S.cmdtype % 6) - 1);
        o->current_char = (char)S.curch;
        o->state = (cat_state)(STATE);
        o->cr_flag = S.crflag & 1; o->hold_state_flag = S.holdflag & 1;
        o->hold_exit_status = (int)(S.holdstatus % 3) - 1;
        o->write_buf = sel_wbuf(S.wbufsel, (const char *)G_buf);
        o->write_state = S.wstate % 3;
        o->write_state_after = (cat_state)(S.wafter % 32 - 1);
        o->implicit_write_flag = S.implflag & 1;

        u->state = (cat_unsolicited_state)(USTATE);
        u->index = vf_u32(S.uindex); u->position = vf_u32(S.uposition);
        u->cmd = sel_cmd(S.ucmdsel); u->var = sel_var(S.uvarsel);
#if UVSEL >= 0
        u->var = &W.var[UVSEL]; u->cmd = (UVSEL < 5) ? &W.cmd[1] : &W.cmd[2]; u->index = (UVSEL < 5) ? UVSEL : 0;
#endif
        u->cmd_type = (cat_cmd_type)((int)(S.ucmdtype % 6) - 1);
        u->write_buf = sel_wbuf(S.uwbufsel, (const char *)ubuf_ptr());
        u->write_state = S.uwstate % 3;
        u->write_state_after = (cat_unsolicited_state)(S.uwafter % 16);
        u->unsolicited_cmd_buffer_head = S.rhead; u->unsolicited_cmd_buffer_tail = S.rtail; u->unsolicited_cmd_buffer_items_count = S.rcount;
        for (i = 0; i < RINGCAP && i < 8; i++) {
                u->unsolicited_cmd_buffer[i].cmd = sel_cmd(S.rcmd[i]);
                u->unsolicited_cmd_buffer[i].type = (cat_cmd_type)((int)(S.rtype[i] % 6) - 1);
        }
}

/* does the event FSM, in state us, write into its buffer during one call? */
static int evt_writes_buffer(int us)
{
        return us == CAT_UNSOLICITED_STATE_IDLE || us == CAT_UNSOLICITED_STATE_FORMAT_READ_ARGS || us == CAT_UNSOLICITED_STATE_FORMAT_TEST_ARGS ||
               us == CAT_UNSOLICITED_STATE_READ_LOOP || us == CAT_UNSOLICITED_STATE_TEST_LOOP ||
               us == CAT_UNSOLICITED_STATE_AFTER_FLUSH_FORMAT_READ_ARGS || us == CAT_UNSOLICITED_STATE_AFTER_FLUSH_FORMAT_TEST_ARGS;
}
static int cmd_never_writes_buffer(int s)
{
        return s == CAT_STATE_IDLE || s == CAT_STATE_FLUSH_IO_WRITE_WAIT || s == CAT_STATE_FLUSH_IO_WRITE || s == CAT_STATE_AFTER_FLUSH_RESET ||
               s == CAT_STATE_SEARCH_COMMAND;
}
static int cmd_reads_input(int s)
{
        return s == CAT_STATE_ERROR || s == CAT_STATE_IDLE || s == CAT_STATE_PARSE_PREFIX || s == CAT_STATE_PARSE_COMMAND_CHAR ||
               s == CAT_STATE_WAIT_READ_ACKNOWLEDGE || s == CAT_STATE_PARSE_COMMAND_ARGS || s == CAT_STATE_WAIT_TEST_ACKNOWLEDGE;
}

static uint8_t SNAP_buf[BUFTOTAL], SNAP_ubuf[UB + 1];

static void scen_run(void)
{
        struct cat_object *o = &W.at;
        unsigned i, j;
        cat_status r, r2 = CAT_STATUS_OK, busy_before;
        size_t cc, cu;
        int pre_cflush, pre_uflush, c_cursor_byte = -1, u_cursor_byte = -1;

        assume_descriptor();
        /* contract: a handler run for an unsolicited event does not return HOLD (it would suspend the command FSM) */
#ifndef UHRET
        if (USTATE == CAT_UNSOLICITED_STATE_READ_LOOP || USTATE == CAT_UNSOLICITED_STATE_TEST_LOOP)
                ASSUME(s32(S.hret[0]) != CAT_RETURN_STATE_HOLD);
#endif
        build_descriptor();
        build_state();
        ASSUME(ri(o, LENB - 1));
        cc = cap_c(); cu = cap_u();

        SNAP = *o;
        for (i = 0; i < BUFTOTAL; i++) SNAP_buf[i] = G_buf[i];
        for (i = 0; i < UB + 1; i++) SNAP_ubuf[i] = G_ubuf[i];
        pre_cflush = (STATE == CAT_STATE_FLUSH_IO_WRITE);
        pre_uflush = (USTATE == CAT_UNSOLICITED_STATE_FLUSH_IO_WRITE);
        if (pre_cflush) c_cursor_byte = (unsigned char)o->write_buf[o->position];
        if (pre_uflush) u_cursor_byte = (unsigned char)o->unsolicited_fsm.write_buf[o->unsolicited_fsm.position];
        o->mutex = NULL;                 /* auxiliary queries are made without the mutex: only cat_service is under test */
        busy_before = cat_is_busy(o);
        o->mutex = MUTEX ? &W.mx : NULL;

        W.call = 0;
        r = cat_service(o);

#if MUTEX
        /* ---- C16 / C17: everything happens between one successful lock and its unlock ---------------- */
        {
                int lockfail = s32(S.lock_ret[0]) != 0, unlockfail = !lockfail && s32(S.unlock_ret[0]) != 0;
                CHK(C16, W.locks == 1 && !W.lock_while_locked, "the lock is taken exactly once and never while held");
                CHK(C16, !W.touched_before_lock, "parser state touched before the lock was taken");
                CHK(C16, !W.cb_unlocked, "io / handler / variable callback invoked without holding the lock");
                CHK(C17, !W.touched_before_lock && !W.cb_unlocked, "access to parser state or a callback outside the critical section");
                if (lockfail) {
                        CHK(C16, r == CAT_STATUS_ERROR_MUTEX_LOCK, "lock failure must be reported as ERROR_MUTEX_LOCK");
                        CHK(C16, W.unlocks == 0 && W.reads == 0 && W.writes == 0 && W.hcalls == 0 && W.vcalls == 0, "lock failed, yet something was done");
                        CHK(C16, same_core(o, &SNAP), "lock failed, yet the call changed the parser");
                        for (i = 0; i < BUFTOTAL; i++) CHK(C16, G_buf[i] == SNAP_buf[i], "lock failed, yet the working buffer changed");
                } else {
                        CHK(C16, W.unlocks == 1 && !W.unlock_unlocked, "exactly one unlock after a successful lock");
                        CHK(C16, same_core(o, &AT_UNLOCK), "parser state touched after the lock was released");
                        CHK(C17, same_core(o, &AT_UNLOCK), "parser state touched after the lock was released");
                        if (unlockfail) CHK(C16, r == CAT_STATUS_ERROR_MUTEX_UNLOCK, "unlock failure must be reported as ERROR_MUTEX_UNLOCK");
                }
                if (lockfail || unlockfail) return; /* the remaining obligations describe a call that ran and reported its own status */
        }
#endif

        /* ---- C03: invariant, frames, canaries ------------------------------------------------ */
        CHK(C03, ri(o, LENB), "representation invariant re-established (memory-safety precondition of the next call)");
        CHK(C03, r == CAT_STATUS_OK || r == CAT_STATUS_BUSY, "cat_service returns OK or BUSY");
        for (i = 0; i < 6; i++) {
                size_t ds = W.var[i].data_size;
                for (j = 0; j < MAXDS + 4; j++)
                        if (j >= ds)
                                CHK(C03, G_vm[i].b[j] == S.vmem[i][j], "byte beyond a variable's data_size was modified");
        }
        if (!evt_writes_buffer(USTATE)) {
#if SEP
                for (i = 0; i < UB + 1; i++) {
                        CHK(C03, G_ubuf[i] == SNAP_ubuf[i], "event buffer modified although the event FSM is not formatting");
                        CHK(C11, G_ubuf[i] == SNAP_ubuf[i], "event buffer modified although the event FSM is not formatting");
                }
#else
                for (i = 0; i < BUFTOTAL; i++)
                        if (i >= cc) {
                                CHK(C03, G_buf[i] == SNAP_buf[i], "event half of the shared buffer modified although the event FSM is not formatting");
                                CHK(C11, G_buf[i] == SNAP_buf[i], "event half of the shared buffer modified although the event FSM is not formatting");
                        }
#endif
        }
        if (cmd_never_writes_buffer(STATE)) {
                for (i = 0; i < BUFTOTAL; i++)
                        if (i < cc) {
                                CHK(C03, G_buf[i] == SNAP_buf[i], "command buffer modified by a state that does not own it");
                                CHK(C11, G_buf[i] == SNAP_buf[i], "command buffer modified by a state that does not own it");
                        }
        }

        /* ---- C06: handler arguments ----------------------------------------------------------------- */
        CHK(C06, !bad_handler_args, "a read/test handler was given the wrong buffer, cursor or capacity");

        /* ---- C08: read-only variables ---------------------------------------------------------- */
        for (i = 0; i < 6; i++)
                if (S.vacc[i] == CAT_VAR_ACCESS_READ_ONLY)
                        for (j = 0; j < MAXDS + 4; j++)
                                CHK(C08, G_vm[i].b[j] == S.vmem[i][j], "storage of a read-only variable changed");

        /* ---- C10: one row of the return-code table per call, from any state (histories of any length) ------------- */
        {
                int is_ok_ack = (o->state == CAT_STATE_FLUSH_IO_WRITE_WAIT && o->write_state == CAT_WRITE_STATE_BEFORE && o->write_state_after == CAT_STATE_AFTER_FLUSH_RESET &&
                                 G_buf[0] == 'O' && G_buf[1] == 'K' && G_buf[2] == 0);
                int is_err_ack = (o->state == CAT_STATE_FLUSH_IO_WRITE_WAIT && o->write_state == CAT_WRITE_STATE_BEFORE && o->write_state_after == CAT_STATE_AFTER_FLUSH_RESET &&
                                  G_buf[0] == 'E' && G_buf[1] == 'R' && G_buf[2] == 'R' && G_buf[3] == 'O' && G_buf[4] == 'R' && G_buf[5] == 0);
                int emits = (o->state == CAT_STATE_FLUSH_IO_WRITE_WAIT && o->write_state == CAT_WRITE_STATE_BEFORE);
                /* index of the command handler's code: the event handler (if any) consumed hret[0] */
                unsigned hi = (USTATE == CAT_UNSOLICITED_STATE_READ_LOOP || USTATE == CAT_UNSOLICITED_STATE_TEST_LOOP) ? 1u : 0u;
                int c = s32(S.hret[hi]);
                if (STATE == CAT_STATE_WRITE_LOOP || STATE == CAT_STATE_RUN_LOOP) {
                        CHK(C10, W.hcalls == hi + 1, "a handler loop state invokes its handler exactly once per call");
                        if (c == CAT_RETURN_STATE_OK || c == CAT_RETURN_STATE_DATA_OK) CHK(C10, is_ok_ack, "write/run handler: OK and DATA_OK finish with OK");
                        else if (c == CAT_RETURN_STATE_NEXT || c == CAT_RETURN_STATE_DATA_NEXT) CHK(C10, o->state == (cat_state)(STATE), "write/run handler: NEXT and DATA_NEXT re-invoke without emitting");
                        else if (c == CAT_RETURN_STATE_HOLD) CHK(C10, o->state == CAT_STATE_HOLD, "HOLD suspends the command");
                        else if (c == CAT_RETURN_STATE_PRINT_CMD_LIST_OK && STATE == CAT_STATE_RUN_LOOP) CHK(C10, o->state == CAT_STATE_PRINT_CMD, "run handler: PRINT_CMD_LIST_OK starts the command list");
                        else CHK(C10, is_err_ack, "write/run handler: a code that is not valid for the kind finishes with ERROR");
                }
                if (STATE == CAT_STATE_READ_LOOP || STATE == CAT_STATE_TEST_LOOP) {
                        cat_state reformat = (STATE == CAT_STATE_READ_LOOP) ? CAT_STATE_AFTER_FLUSH_FORMAT_READ_ARGS : CAT_STATE_AFTER_FLUSH_FORMAT_TEST_ARGS;
                        CHK(C10, W.hcalls == hi + 1, "a handler loop state invokes its handler exactly once per call");
                        if (c == CAT_RETURN_STATE_OK || c == CAT_RETURN_STATE_HOLD_EXIT_OK) CHK(C10, is_ok_ack, "read/test handler: OK finishes at once with OK, no data");
                        else if (c == CAT_RETURN_STATE_DATA_OK) CHK(C10, emits && o->write_state_after == CAT_STATE_AFTER_FLUSH_OK, "read/test handler: DATA_OK emits the buffer, then OK");
                        else if (c == CAT_RETURN_STATE_DATA_NEXT) CHK(C10, emits && o->write_state_after == reformat, "read/test handler: DATA_NEXT emits the buffer, then re-formats and re-invokes");
                        else if (c == CAT_RETURN_STATE_NEXT) CHK(C10, !emits || is_err_ack, "read/test handler: NEXT re-invokes without emitting");
                        else if (c == CAT_RETURN_STATE_HOLD) CHK(C10, o->state == CAT_STATE_HOLD, "HOLD suspends the command");
                        else if (c == CAT_RETURN_STATE_PRINT_CMD_LIST_OK && STATE == CAT_STATE_TEST_LOOP) CHK(C10, o->state == CAT_STATE_PRINT_CMD, "test handler: PRINT_CMD_LIST_OK starts the command list");
                        else CHK(C10, is_err_ack, "read/test handler: ERROR, invalid and unknown codes finish with ERROR");
                }
#ifdef UHRET
                /* the same table for handlers of unsolicited events, except that no result code is ever produced for them */
                {
                        struct cat_unsolicited_fsm *u = &o->unsolicited_fsm;
                        int uc = (UHRET);
                        int uemits = (u->state == CAT_UNSOLICITED_STATE_FLUSH_IO_WRITE_WAIT && u->write_state == CAT_WRITE_STATE_BEFORE);
                        cat_unsolicited_state ureformat = (USTATE == CAT_UNSOLICITED_STATE_READ_LOOP) ? CAT_UNSOLICITED_STATE_AFTER_FLUSH_FORMAT_READ_ARGS : CAT_UNSOLICITED_STATE_AFTER_FLUSH_FORMAT_TEST_ARGS;
                        CHK(C10, W.hcalls >= 1, "an event in a handler loop state invokes its handler");
                        if (uc == CAT_RETURN_STATE_DATA_OK) CHK(C10, uemits && u->write_state_after == CAT_UNSOLICITED_STATE_AFTER_FLUSH_OK, "event handler: DATA_OK emits the buffer once");
                        else if (uc == CAT_RETURN_STATE_DATA_NEXT) CHK(C10, uemits && u->write_state_after == ureformat, "event handler: DATA_NEXT emits, re-formats and re-invokes");
                        else if (uc == CAT_RETURN_STATE_NEXT) CHK(C10, !uemits, "event handler: NEXT re-invokes without emitting");
                        else CHK(C10, u->state == CAT_UNSOLICITED_STATE_IDLE, "event handler: every other code ends the event without emitting");
                        if (cmd_never_writes_buffer(STATE))
                                for (i = 0; i < BUFTOTAL; i++)
                                        if (i < cc)
                                                CHK(C10, G_buf[i] == SNAP_buf[i], "no result code is produced for an unsolicited event");
                }
#endif
        }

        /* ---- C10: "re-invokes the handler on a freshly formatted buffer" - whenever a machine ENTERS a formatting state (first
         *      time, after NEXT, or after the flush that follows DATA_NEXT) it starts with the first variable ------------------ */
        if (o->state == CAT_STATE_FORMAT_READ_ARGS && STATE != CAT_STATE_FORMAT_READ_ARGS)
                CHK(C10, o->index == 0 && o->cmd != NULL && o->var == o->cmd->var, "(re-)formatting of a READ answer does not start with the first variable");
        if (o->state == CAT_STATE_FORMAT_TEST_ARGS && STATE != CAT_STATE_FORMAT_TEST_ARGS)
                CHK(C10, o->index == 0 && o->cmd != NULL && o->var == o->cmd->var, "(re-)formatting of a TEST answer does not start with the first variable");
        if (o->unsolicited_fsm.state == CAT_UNSOLICITED_STATE_FORMAT_READ_ARGS && USTATE != CAT_UNSOLICITED_STATE_FORMAT_READ_ARGS)
                CHK(C10, o->unsolicited_fsm.index == 0 && o->unsolicited_fsm.cmd != NULL && o->unsolicited_fsm.var == o->unsolicited_fsm.cmd->var,
                    "(re-)formatting of an event's READ line does not start with the first variable");
        if (o->unsolicited_fsm.state == CAT_UNSOLICITED_STATE_FORMAT_TEST_ARGS && USTATE != CAT_UNSOLICITED_STATE_FORMAT_TEST_ARGS)
                CHK(C10, o->unsolicited_fsm.index == 0 && o->unsolicited_fsm.cmd != NULL && o->unsolicited_fsm.var == o->unsolicited_fsm.cmd->var,
                    "(re-)formatting of an event's TEST line does not start with the first variable");

        /* ---- C11: flush discipline --------------------------------------------------------------- */
        CHK(C11, W.writes <= 1, "more than one io->write attempt in one call");
        if (W.writes == 1) {
                CHK(C11, pre_cflush != pre_uflush, "io->write attempted although no machine (or both) was flushing");
                if (pre_cflush) {
                        CHK(C11, W.wr_byte[0] == c_cursor_byte, "command FSM offered a byte other than the one under its cursor");
                        CHK(C11, o->position == SNAP.position + (W.wr_ret[0] == 1 ? 1 : 0) && o->write_buf == SNAP.write_buf && o->state == CAT_STATE_FLUSH_IO_WRITE,
                            "command cursor advances by exactly one iff the byte was accepted");
                        CHK(C11, o->unsolicited_fsm.position == SNAP.unsolicited_fsm.position || evt_writes_buffer(USTATE), "event cursor moved during a command write");
                }
                if (pre_uflush) {
                        CHK(C11, W.wr_byte[0] == u_cursor_byte, "event FSM offered a byte other than the one under its cursor");
                        CHK(C11, o->unsolicited_fsm.position == SNAP.unsolicited_fsm.position + (W.wr_ret[0] == 1 ? 1 : 0) &&
                                 o->unsolicited_fsm.write_buf == SNAP.unsolicited_fsm.write_buf && o->unsolicited_fsm.state == CAT_UNSOLICITED_STATE_FLUSH_IO_WRITE,
                            "event cursor advances by exactly one iff the byte was accepted");
                }
        } else {
                if (pre_cflush) CHK(C11, c_cursor_byte == 0, "flushing command FSM skipped a byte without offering it");
                if (pre_uflush) CHK(C11, u_cursor_byte == 0, "flushing event FSM skipped a byte without offering it");
        }
        /* entering a flush always starts at the first byte of a unit */
        if (!pre_cflush && o->state == CAT_STATE_FLUSH_IO_WRITE)
                /* (the event FSM runs first in a call: it may have finished its unit in this very call) */
                CHK(C11, STATE == CAT_STATE_FLUSH_IO_WRITE_WAIT && o->unsolicited_fsm.state != CAT_UNSOLICITED_STATE_FLUSH_IO_WRITE, "command flush entered other than from its wait state / while the event FSM flushes");
        if (!pre_uflush && o->unsolicited_fsm.state == CAT_UNSOLICITED_STATE_FLUSH_IO_WRITE)
                CHK(C11, USTATE == CAT_UNSOLICITED_STATE_FLUSH_IO_WRITE_WAIT && STATE != CAT_STATE_FLUSH_IO_WRITE, "event flush entered other than from its wait state / while the command FSM flushes");
        if (STATE != CAT_STATE_FLUSH_IO_WRITE_WAIT && STATE != CAT_STATE_FLUSH_IO_WRITE && o->state == CAT_STATE_FLUSH_IO_WRITE_WAIT)
                CHK(C11, o->position == 0 && (o->write_state == CAT_WRITE_STATE_BEFORE || (o->write_state == CAT_WRITE_STATE_AFTER && o->write_buf == (const char *)G_buf)),
                    "a command unit starts with its cursor on the first byte of the leading newline (or of a command-list line)");
        if (USTATE != CAT_UNSOLICITED_STATE_FLUSH_IO_WRITE_WAIT && USTATE != CAT_UNSOLICITED_STATE_FLUSH_IO_WRITE &&
            o->unsolicited_fsm.state == CAT_UNSOLICITED_STATE_FLUSH_IO_WRITE_WAIT)
                CHK(C11, o->unsolicited_fsm.position == 0 && o->unsolicited_fsm.write_state == CAT_WRITE_STATE_BEFORE, "an event unit starts with its cursor on the first byte of the leading newline");
        if (pre_cflush && o->state != CAT_STATE_FLUSH_IO_WRITE)
                CHK(C11, c_cursor_byte == 0 && SNAP.write_state == CAT_WRITE_STATE_AFTER && o->state == SNAP.write_state_after, "command flush left before the end of the trailing newline");
        if (pre_uflush && o->unsolicited_fsm.state != CAT_UNSOLICITED_STATE_FLUSH_IO_WRITE)
                CHK(C11, u_cursor_byte == 0 && SNAP.unsolicited_fsm.write_state == CAT_WRITE_STATE_AFTER && o->unsolicited_fsm.state == SNAP.unsolicited_fsm.write_state_after,
                    "event flush left before the end of the trailing newline");

        /* ---- C12: refusals change nothing ---------------------------------------------------------- */
        if (cmd_reads_input(STATE)) {
                /* (not "exactly one": the property does not forbid a caller that drains several available bytes per call;
                 * what it needs is that the FIRST refusal ends the call's reading without side effects - below - and the
                 * line-level twin runs with a chunk boundary at every byte position, r_twin.c MODE 1) */
                CHK(C12, W.reads >= 1, "a reading state did not poll the input");
                if (!S.rd_ok[0]) {
                        CHK(C12, o->state == SNAP.state && o->index == SNAP.index && o->length == SNAP.length && o->position == SNAP.position &&
                                 o->cmd == SNAP.cmd && o->var == SNAP.var && o->cmd_type == SNAP.cmd_type && o->cr_flag == SNAP.cr_flag &&
                                 o->partial_cntr == SNAP.partial_cntr && o->write_buf == SNAP.write_buf && o->write_state == SNAP.write_state &&
                                 o->write_state_after == SNAP.write_state_after && o->implicit_write_flag == SNAP.implicit_write_flag &&
                                 o->hold_state_flag == SNAP.hold_state_flag,
                            "a refused read changed the command FSM");
                        for (i = 0; i < BUFTOTAL; i++)
                                if (i < cc)
                                        CHK(C12, G_buf[i] == SNAP_buf[i], "a refused read changed the command buffer");
                        if (USTATE == CAT_UNSOLICITED_STATE_IDLE && SNAP.unsolicited_fsm.unsolicited_cmd_buffer_items_count == 0)
                                CHK(C12, W.hcalls == 0 && W.vcalls == 0 && W.writes == 0, "a refused read caused a callback");
                }
        } else {
                CHK(C12, W.reads == 0, "a state that does not parse input attempted to read");
        }
        if (W.writes == 1 && W.wr_ret[0] != 1) {
                if (pre_cflush)
                        CHK(C12, o->state == SNAP.state && o->position == SNAP.position && o->write_buf == SNAP.write_buf && o->write_state == SNAP.write_state,
                            "a refused write changed the command FSM");
                if (pre_uflush)
                        CHK(C12, o->unsolicited_fsm.state == SNAP.unsolicited_fsm.state && o->unsolicited_fsm.position == SNAP.unsolicited_fsm.position &&
                                 o->unsolicited_fsm.write_buf == SNAP.unsolicited_fsm.write_buf && o->unsolicited_fsm.write_state == SNAP.unsolicited_fsm.write_state,
                            "a refused write changed the event FSM");
                if (pre_cflush)
                        for (i = 0; i < BUFTOTAL; i++)
                                if (i < cc)
                                        CHK(C12, G_buf[i] == SNAP_buf[i], "a refused write changed the command buffer");
        }

        /* C18: a unit whose byte was refused is still partially emitted - the machine must stay in its flushing state (a busy
         * query right after this call must not see it idle); seeded change C18_r7 advanced the state before the write was accepted */
        if (W.writes == 1 && W.wr_ret[0] != 1) {
                if (pre_cflush)
                        CHK(C18, o->state == SNAP.state && o->position == SNAP.position, "a refused write moved the command FSM on: the byte is still owed");
                if (pre_uflush)
                        CHK(C18, o->unsolicited_fsm.state == SNAP.unsolicited_fsm.state && o->unsolicited_fsm.position == SNAP.unsolicited_fsm.position,
                            "a refused write moved the event FSM on: the byte is still owed");
        }

        /* ---- C13: ring is popped only by the idle event FSM, oldest entry first -------------------- */
        {
                struct cat_unsolicited_fsm *u = &o->unsolicited_fsm, *p = &SNAP.unsolicited_fsm;
                if (USTATE == CAT_UNSOLICITED_STATE_IDLE && p->unsolicited_cmd_buffer_items_count > 0) {
                        CHK(C13, u->unsolicited_cmd_buffer_items_count == p->unsolicited_cmd_buffer_items_count - 1 &&
                                 u->unsolicited_cmd_buffer_head == (p->unsolicited_cmd_buffer_head + 1) % RINGCAP &&
                                 u->unsolicited_cmd_buffer_tail == p->unsolicited_cmd_buffer_tail,
                            "idle event FSM did not pop exactly the oldest queued event");
                        CHK(C13, u->state == CAT_UNSOLICITED_STATE_IDLE || (u->cmd == p->unsolicited_cmd_buffer[p->unsolicited_cmd_buffer_head].cmd &&
                                 u->cmd_type == p->unsolicited_cmd_buffer[p->unsolicited_cmd_buffer_head].type),
                            "the event in progress is not the one that was popped");
                } else {
                        CHK(C13, u->unsolicited_cmd_buffer_items_count == p->unsolicited_cmd_buffer_items_count &&
                                 u->unsolicited_cmd_buffer_head == p->unsolicited_cmd_buffer_head && u->unsolicited_cmd_buffer_tail == p->unsolicited_cmd_buffer_tail,
                            "event queue changed although the event FSM was busy (or the queue empty)");
                }
                for (i = 0; i < RINGCAP; i++)
                        CHK(C13, u->unsolicited_cmd_buffer[i].cmd == p->unsolicited_cmd_buffer[i].cmd && u->unsolicited_cmd_buffer[i].type == p->unsolicited_cmd_buffer[i].type,
                            "a queued event was rewritten by cat_service");
                /* "exactly once": the event in progress ends - a terminal handler code or the end of its last line brings the
                 * event FSM back to idle (otherwise its handler runs again and the events behind it wait forever) */
#ifdef UHRET
                if (USTATE == CAT_UNSOLICITED_STATE_READ_LOOP || USTATE == CAT_UNSOLICITED_STATE_TEST_LOOP) {
                        int uc13 = (UHRET);
                        if (uc13 == CAT_RETURN_STATE_DATA_OK)
                                CHK(C13, u->state == CAT_UNSOLICITED_STATE_FLUSH_IO_WRITE_WAIT && u->write_state_after == CAT_UNSOLICITED_STATE_AFTER_FLUSH_OK,
                                    "event handler returned DATA_OK but the event is not on its way to its (single) final line");
                        else if (uc13 != CAT_RETURN_STATE_DATA_NEXT && uc13 != CAT_RETURN_STATE_NEXT)
                                CHK(C13, u->state == CAT_UNSOLICITED_STATE_IDLE, "a terminal event-handler code did not end the event in progress (it would be processed again)");
                }
#endif
                /* an event line on its way out is always followed by one of the end-of-event / re-format steps (never straight back to
                 * idle, which would skip clearing the event in progress) */
                if (u->state == CAT_UNSOLICITED_STATE_FLUSH_IO_WRITE_WAIT || u->state == CAT_UNSOLICITED_STATE_FLUSH_IO_WRITE)
                        CHK(C13, after_ok_evt(u->write_state_after, u), "an event line is not followed by the end-of-event step (the event would stay 'in progress')");
                if (u->state == CAT_UNSOLICITED_STATE_IDLE)
                        CHK(C13, u->cmd == NULL && u->cmd_type == CAT_CMD_TYPE_NONE, "the event FSM is idle, yet an event is still reported as in progress (observers stay BUSY for a finished event)");
                if (USTATE == CAT_UNSOLICITED_STATE_AFTER_FLUSH_OK || USTATE == CAT_UNSOLICITED_STATE_AFTER_FLUSH_RESET)
                        CHK(C13, u->state == CAT_UNSOLICITED_STATE_IDLE, "the event in progress did not end after its final line");
        }

        /* ---- C20 (no stale state reaches a callback): the length handed to a variable write callback is determined by the argument
         *      just parsed - 0 for a read-only variable, data_size for a stored number - never by what an earlier line left behind ---- */
#if defined(VSEL)
        if (STATE == CAT_STATE_PARSE_WRITE_ARGS && W.vw_calls == 1 && (VSEL == 0 || VSEL == 1 || VSEL == 2 || VSEL == 5)) {
                if (S.vacc[VSEL] == CAT_VAR_ACCESS_READ_ONLY)
                        CHK(C20, W.vw_last == 0, "the write callback of a read-only variable was told a length left over from earlier input");
                else
                        CHK(C20, W.vw_last == W.var[VSEL].data_size, "the write callback of a numeric variable was not told data_size");
        }
#endif

        /* ---- C14: hold ------------------------------------------------------------------------------- */
        if (STATE == CAT_STATE_HOLD) {
                /* the only release request that can arise inside cat_service: an event handler returning HOLD_EXIT_OK / HOLD_EXIT_ERROR */
                int evt_release = 0;
#ifdef UHRET
                if ((USTATE == CAT_UNSOLICITED_STATE_READ_LOOP || USTATE == CAT_UNSOLICITED_STATE_TEST_LOOP) &&
                    ((UHRET) == CAT_RETURN_STATE_HOLD_EXIT_OK || (UHRET) == CAT_RETURN_STATE_HOLD_EXIT_ERROR))
                        evt_release = 1;
#endif
                CHK(C14, W.reads == 0, "input consumed while the command is held");
                if (!evt_release && SNAP.hold_exit_status == 0)
                        CHK(C14, o->state == CAT_STATE_HOLD && o->hold_exit_status == 0, "a release appeared that nobody requested (no cat_hold_exit, no HOLD_EXIT_* from an event handler)");
                if (o->state != CAT_STATE_HOLD) {
                        int requested = SNAP.hold_exit_status;
                        /* an event handler may have requested the release during this very call */
                        CHK(C14, o->state == CAT_STATE_FLUSH_IO_WRITE_WAIT && o->hold_state_flag == false, "leaving hold goes straight to the result code");
                        CHK(C14, requested != 0 || evt_release, "hold left without a release request");
                        if (requested > 0 && W.hcalls == 0) CHK(C14, G_buf[0] == 'O' && G_buf[1] == 'K' && G_buf[2] == 0, "release with OK status answers OK");
                        if (requested < 0 && W.hcalls == 0) CHK(C14, G_buf[0] == 'E' && G_buf[1] == 'R', "release with ERROR status answers ERROR");
                } else {
                        CHK(C14, SNAP.hold_exit_status == 0, "release was requested but the command is still held");
                }
        }
        if (STATE != CAT_STATE_HOLD && o->state == CAT_STATE_HOLD)
                CHK(C14, o->hold_exit_status == 0 && o->hold_state_flag != false, "entering hold must not carry a stale release request");

        /* ---- C18: idle report implies no write attempt and no callback for the command FSM ------------ */
        if (busy_before == CAT_STATUS_OK && !S.rd_ok[0] && USTATE == CAT_UNSOLICITED_STATE_IDLE && SNAP.unsolicited_fsm.unsolicited_cmd_buffer_items_count == 0)
                CHK(C18, W.writes == 0 && W.hcalls == 0 && W.vcalls == 0 && r == CAT_STATUS_OK, "cat_is_busy said idle, yet the next call (no input, no event) wrote or called back");
        /* no line is partially received while cat_is_busy says idle: a bare LF handed to an idle parser (no event pending) is
         * swallowed as a blank line - with a partial or aborted line pending it would start an answer */
        if (busy_before == CAT_STATUS_OK && S.rd_ok[0] && S.rd_ch[0] == '\n' && USTATE == CAT_UNSOLICITED_STATE_IDLE &&
            SNAP.unsolicited_fsm.unsolicited_cmd_buffer_items_count == 0) {
                cat_status busy_after;
                o->mutex = NULL;
                busy_after = cat_is_busy(o);
                o->mutex = MUTEX ? &W.mx : NULL;
                CHK(C18, W.writes == 0 && W.hcalls == 0 && W.vcalls == 0 && busy_after == CAT_STATUS_OK,
                    "cat_is_busy said idle, yet a line was partially received (an LF started an answer)");
        }
        if (busy_before == CAT_STATUS_OK)
                CHK(C18, !pre_cflush && !pre_uflush && USTATE != CAT_UNSOLICITED_STATE_FLUSH_IO_WRITE_WAIT && STATE != CAT_STATE_FLUSH_IO_WRITE_WAIT,
                    "cat_is_busy said idle while an output unit is open or about to start");
        o->mutex = NULL;
        CHK(C18, (cat_is_hold(o) == CAT_STATUS_HOLD) == (o->state == CAT_STATE_HOLD), "cat_is_hold reports HOLD iff a command is suspended");
        o->mutex = MUTEX ? &W.mx : NULL;

        /* ---- C15 (liveness, local progress): neither machine can be starved at the flush handshake, a flushing
         *      machine makes progress whenever the output accepts, and BUSY is reported while work remains ------- */
        /* (phrased over the states after the call so that either arbitration order between the two machines passes: a machine
         * that waits for the output while the other one is not flushing must not find the output still unused afterwards) */
        if (USTATE == CAT_UNSOLICITED_STATE_FLUSH_IO_WRITE_WAIT && STATE != CAT_STATE_FLUSH_IO_WRITE)
                CHK(C15, o->unsolicited_fsm.state == CAT_UNSOLICITED_STATE_FLUSH_IO_WRITE || o->state == CAT_STATE_FLUSH_IO_WRITE,
                    "event FSM kept waiting for the output although nobody is flushing (starvation)");
        if (STATE == CAT_STATE_FLUSH_IO_WRITE_WAIT && USTATE != CAT_UNSOLICITED_STATE_FLUSH_IO_WRITE)
                CHK(C15, o->state == CAT_STATE_FLUSH_IO_WRITE || o->unsolicited_fsm.state == CAT_UNSOLICITED_STATE_FLUSH_IO_WRITE,
                    "command FSM kept waiting for the output although nobody is flushing (starvation)");
        if (pre_cflush && W.writes == 1 && W.wr_ret[0] == 1)
                CHK(C15, o->position == SNAP.position + 1, "accepted byte, but the command flush made no progress");
        if (pre_cflush && W.writes == 0)
                CHK(C15, o->state != CAT_STATE_FLUSH_IO_WRITE || o->write_state != SNAP.write_state || o->write_buf != SNAP.write_buf, "command flush at a section end made no progress");
        if (pre_uflush && W.writes == 0)
                CHK(C15, o->unsolicited_fsm.state != CAT_UNSOLICITED_STATE_FLUSH_IO_WRITE || o->unsolicited_fsm.write_state != SNAP.unsolicited_fsm.write_state ||
                         o->unsolicited_fsm.write_buf != SNAP.unsolicited_fsm.write_buf, "event flush at a section end made no progress");
        /* OK means "nothing left without new stimulus": a call that was handed an input byte cannot know that the input is dry -
         * it may report OK only if it made no read attempt or its last attempt was refused (any byte counts, NUL included) */
        if (r == CAT_STATUS_OK)
                CHK(C15, W.reads == 0 || W.last_read_ret == 0, "OK reported by a call that consumed an input byte without finding the input dry (pending bytes would be left unread)");
        /* waiting for input is not work: a reading state whose read is refused, with no event queued or in progress, reports OK
         * (otherwise a caller polling "until OK" spins forever on an unterminated line) */
        if (cmd_reads_input(STATE) && !S.rd_ok[0] && USTATE == CAT_UNSOLICITED_STATE_IDLE && SNAP.unsolicited_fsm.unsolicited_cmd_buffer_items_count == 0 && !W.cbt_done)
                CHK(C15, r == CAT_STATUS_OK, "BUSY although the only thing missing is input (no byte available, no event, nothing to emit)");
        if (!cmd_reads_input(STATE) && STATE != CAT_STATE_HOLD && STATE != CAT_STATE_FLUSH_IO_WRITE && STATE != CAT_STATE_FLUSH_IO_WRITE_WAIT &&
            STATE != CAT_STATE_WRITE_LOOP && STATE != CAT_STATE_RUN_LOOP && STATE != CAT_STATE_READ_LOOP && STATE != CAT_STATE_TEST_LOOP)
                CHK(C15, o->state != SNAP.state || o->index != SNAP.index || o->cmd_type != SNAP.cmd_type || o->position != SNAP.position || o->var != SNAP.var,
                    "a computing state of the command FSM made no progress in one call");
        if (USTATE != CAT_UNSOLICITED_STATE_IDLE && USTATE != CAT_UNSOLICITED_STATE_FLUSH_IO_WRITE && USTATE != CAT_UNSOLICITED_STATE_FLUSH_IO_WRITE_WAIT &&
            USTATE != CAT_UNSOLICITED_STATE_READ_LOOP && USTATE != CAT_UNSOLICITED_STATE_TEST_LOOP)
                CHK(C15, o->unsolicited_fsm.state != SNAP.unsolicited_fsm.state || o->unsolicited_fsm.index != SNAP.unsolicited_fsm.index ||
                         o->unsolicited_fsm.position != SNAP.unsolicited_fsm.position || o->unsolicited_fsm.var != SNAP.unsolicited_fsm.var,
                    "a computing state of the event FSM made no progress in one call");

#if CALLS == 2
        /* ---- C15 (safety half): OK means quiescent -------------------------------------------------- */
        if (r == CAT_STATUS_OK) {
                struct cat_object mid = *o;
                unsigned w0 = W.writes, h0 = W.hcalls, v0 = W.vcalls;
                ASSUME(!S.rd_ok[1]);
                W.call = 1;
                /* performance hint, proved not assumed: in this tree OK is only returned when neither machine moved, so the
                 * second call can be executed with both states pinned again; a tree where that is not so makes the job
                 * inconclusive ("hint-incomplete"), never a violation */
                if (o->state == (cat_state)(STATE) && o->unsolicited_fsm.state == (cat_unsolicited_state)(USTATE)) {
                        o->state = (cat_state)(STATE);
                        o->unsolicited_fsm.state = (cat_unsolicited_state)(USTATE);
                } else {
                        CHECK(0, "hint-incomplete: cat_service returned OK after changing an FSM state");
                        ASSUME(0);
                }
                r2 = cat_service(o);
                CHK(C15, r2 == CAT_STATUS_OK, "cat_service returned OK, but an immediately repeated call (no stimulus) did not");
                CHK(C15, W.writes == w0 && W.hcalls == h0 && W.vcalls == v0, "repeated call after OK emitted or invoked a callback");
                CHK(C15, o->state == mid.state && o->unsolicited_fsm.state == mid.unsolicited_fsm.state &&
                         o->unsolicited_fsm.unsolicited_cmd_buffer_items_count == mid.unsolicited_fsm.unsolicited_cmd_buffer_items_count &&
                         o->position == mid.position && o->index == mid.index && o->length == mid.length,
                    "repeated call after OK changed the parser state");
                CHK(C15, o->unsolicited_fsm.unsolicited_cmd_buffer_items_count == 0 && o->unsolicited_fsm.state == CAT_UNSOLICITED_STATE_IDLE,
                    "cat_service returned OK while an event is queued or in progress");
        }
#endif
        (void)r2; (void)cu;
        WITNESS(o->state != (cat_state)(STATE), "state-changed");
}

#ifndef __CPROVER__
static void scen_sample(void)
{
        /* native side: random object states; most violate RI and are discarded, the rest validate the harness */
        unsigned i;
        rnd_bytes((unsigned char *)&S, sizeof(S));
        S.bufsize = (unsigned char)(BUFSZ > 0 ? BUFSZ : SEP ? 6 + rnd(CAPC_MAX - 5) : 12 + rnd(2 * CAPC_MAX + 1 - 11));
        S.cbt_where = (unsigned char)rnd(3);
        S.ubsize = (unsigned char)rnd(UB + 1);
        for (i = 0; i < NCMD; i++) { S.fl[i] = (unsigned char)(rnd(3) ? 0 : rnd(16)); S.hm[i] = (unsigned char)(rnd(3) ? 15 : rnd(16)); if (S.fl[i] & 4) S.hm[i] &= 1; }
        S.fl[0] &= ~4; S.fl[1] &= ~4;
        S.gd[0] = (unsigned char)(rnd(6) == 0); S.gd[1] = (unsigned char)(rnd(6) == 0); S.desc_present = (unsigned char)rnd(4);
        for (i = 0; i < 3; i++) S.vds[i] = (unsigned char)(1 + rnd(4));
        for (i = 3; i < 5; i++) S.vds[i] = (unsigned char)(1 + rnd(MAXDS));
        for (i = 0; i < 6; i++) { S.vacc[i] = (unsigned char)rnd(3); S.vcb[i] = (unsigned char)rnd(4); S.vname[i] = (unsigned char)rnd(2); }
        for (i = 0; i < CALLS; i++) S.rd_ok[i] = (unsigned char)rnd(2);
        S.hmod = (unsigned char)rnd(2);
        /* steer towards RI */
        for (i = 0; i < 4; i++) { S.index[i] = S.partial[i] = S.length[i] = S.position[i] = S.uindex[i] = S.uposition[i] = 0; }
        S.index[0] = (unsigned char)rnd(3); S.length[0] = (unsigned char)rnd(CAPC_MAX); S.position[0] = (unsigned char)rnd(CAPC_MAX);
        S.uindex[0] = (unsigned char)rnd(5); S.uposition[0] = (unsigned char)rnd(CAPC_MAX);
        S.cmdsel = (unsigned char)rnd(4); S.ucmdsel = (unsigned char)rnd(4);
        S.varsel = (unsigned char)(S.cmdsel == 1 ? S.index[0] % 5 : 5); S.uvarsel = (unsigned char)(S.ucmdsel == 1 ? S.uindex[0] % 5 : 5);
        if (S.cmdsel == 1) S.index[0] = S.varsel; else if (STATE == 9 || STATE == 10 || STATE == 12) S.index[0] = 0;
        if (S.ucmdsel == 1) S.uindex[0] = S.uvarsel; else S.uindex[0] = 0;
        if (USTATE == CAT_UNSOLICITED_STATE_IDLE && rnd(8)) { S.ucmdsel = 3; S.ucmdtype = 0; S.uvarsel = 5; S.uindex[0] = 0; }   /* idle: no event in progress */
        S.holdflag = (unsigned char)(STATE == CAT_STATE_HOLD); S.implflag = 0; S.crflag = (unsigned char)(STATE == 0 ? 0 : rnd(2));
        S.wbufsel = (unsigned char)rnd(3); S.uwbufsel = (unsigned char)rnd(3);
        S.wafter = (unsigned char)(1 + (rnd(2) ? 20 + rnd(4) : 24)); S.uwafter = (unsigned char)(7 + rnd(4));
        S.rhead = (unsigned char)rnd(RINGCAP); S.rcount = (unsigned char)rnd(RINGCAP + 1); S.rtail = (unsigned char)((S.rhead + S.rcount) % RINGCAP);
        for (i = 0; i < 8; i++) { S.rcmd[i] = (unsigned char)rnd(3); S.rtype[i] = (unsigned char)(rnd(2) ? 2 : 4); }
        for (i = 0; i < BUFTOTAL; i++) if (rnd(3) == 0) S.buf[i] = 0; else if (rnd(2)) S.buf[i] = RND_PICK("0123456789,\"-x");
        for (i = 0; i < UB + 1; i++) if (rnd(3) == 0) S.ubuf[i] = 0;
        if (rnd(2)) { S.wstate = (unsigned char)(S.wbufsel == 2 ? 1 + rnd(2) : rnd(2) * 2); S.position[0] = (unsigned char)(S.wbufsel == 2 ? rnd(6) : rnd(2)); }
        if (rnd(2)) { S.uwstate = (unsigned char)(S.uwbufsel == 2 ? 1 : rnd(2) * 2); S.uposition[0] = (unsigned char)(S.uwbufsel == 2 ? rnd(6) : rnd(2)); }
        for (i = 0; i < 2; i++) { S.hret[i][0] = (unsigned char)rnd(10); S.hret[i][1] = S.hret[i][2] = S.hret[i][3] = 0; if (rnd(8) == 0) S.hret[i][0] = S.hret[i][1] = S.hret[i][2] = S.hret[i][3] = 0xff; }
        for (i = 0; i < 4; i++) { S.vret[i][0] = (unsigned char)(rnd(4) == 0); S.vret[i][1] = S.vret[i][2] = S.vret[i][3] = 0; }
        for (i = 0; i < CALLS; i++) { S.wr_ret[i][0] = (unsigned char)rnd(2); S.wr_ret[i][1] = S.wr_ret[i][2] = S.wr_ret[i][3] = 0; }
        for (i = 0; i < CALLS; i++) {
                unsigned j;
                for (j = 0; j < 4; j++) S.lock_ret[i][j] = S.unlock_ret[i][j] = 0;
                if (rnd(4) == 0) S.lock_ret[i][0] = 1;
                if (rnd(4) == 0) S.unlock_ret[i][0] = 1;
        }
}
#endif
