/*
 * r_args.c - E3 guided run for C06: handlers see exactly the arguments that were sent.
 *
 * Fixed table (+A: no variable; +B: one uint8 variable; +C: one int8 variable), symbolic handler
 * subsets and flags off; one line AT+k=<args>LF (or AT+k?LF) whose argument bytes take every
 * value except LF - CR included, which must vanish. The write handler's view (data, data_size,
 * NUL terminator, args_num) is compared with the harness's own copy of the sent bytes; a line
 * whose arguments do not fit the command buffer must be answered with ERROR, no handler, no
 * variable callback, no variable change. The read handler must be given the formatted text, its
 * length and the true capacity of the command buffer (shared and separate event buffer).
 */
#define SYM_NAMES 0
#define SYM_FLAGS 0
#define NH 4
#define NO_OUTLOG   /* this harness never looks at the raw output log */
#include "world.h"
/* the write-path obligations are also the transport leg of C07's round trip: what READ printed, sent back as a WRITE line, reaches
 * the argument parser / the write handler byte for byte and as a WRITE */
#define CHK67(c, msg) do { CHK(C06, c, msg); CHK(C07, c, msg); } while (0)

#ifndef SHAPESTR
#error "r_args needs SHAPESTR"
#endif

static void scen_run(void)
{
        static const char shape[] = SHAPESTR;
        unsigned char sent[L + 1];
        unsigned i, ns = 0, argp = 0, ci, cap;
        int k, is_read = 0, first = -1;
        cat_status r = CAT_STATUS_BUSY;
        uint8_t v0 = 0, v1 = 0;

        world_assume();
        ASSUME(S.in_len == L);
        for (i = 0; i < L; i++)
                ASSUME(shape_ok(shape[i], S.in[i]));
        world_build();
        v0 = G_v0; v1 = G_v1;
        cap = cmd_half_cap();

        /* reference: command letter at position 3, '=' or '?' at 4 */
        ci = (unsigned)(up(S.in[3]) - 'A');
        is_read = (shape[4] == '?');
        argp = 5;
        for (i = 0; i < L + 1; i++) sent[i] = 0;
        for (i = 0; i < L; i++)
                if (i >= argp && S.in[i] != '\n' && S.in[i] != '\r') {
                        if (first < 0) first = S.in[i];
                        sent[ns++] = S.in[i];
                }

        for (k = 0; k < N; k++) {
                W.k = k;
                r = hinted_service(0, k, &W.at);
        }
        CHK(C06, r == CAT_STATUS_OK && W.in_pos == S.in_len && W.u_state == 0, "line completely processed within the step bound");

        if (!is_read) {
                int is_test = (first == '?') && ((S.hm[ci] & H_TEST) || G_cmd[ci].var_num > 0);
                if (ns >= cap) {
                        /* arguments do not fit (capacity includes the NUL): rejected, never cut */
                        CHK67( W.hl_n == 0, "over-long argument list: no handler may run");
                        CHK67( W.vw_n[0] == 0 && W.vw_n[1] == 0 && G_v0 == v0 && G_v1 == v1, "over-long argument list: no variable callback, no variable change");
                        CHK67( W.units == 1 && W.u_len == 5 && G_pay[0] == 'E' && G_pay[4] == 'R', "over-long argument list is answered with ERROR");
                } else if (!is_test) {
                        if (W.hl_n >= 1) {
                                unsigned expect_args = 0;
                                CHK67( W.hl_kind[0] == CAT_CMD_TYPE_WRITE && W.hl_cmd[0] == ci, "write handler of the addressed command");
                                CHK67( G_wsize == ns, "write handler is told the exact argument length");
                                for (i = 0; i < L; i++)
                                        if (i < ns)
                                                CHK67( G_wdata[i] == sent[i], "write handler sees the bytes that were sent (CR removed, case preserved)");
                                CHK67( G_wdata[ns] == 0, "argument text is NUL-terminated");
                                if (G_cmd[ci].var_num > 0 && S.vacc[ci - 1] != CAT_VAR_ACCESS_READ_ONLY)
                                        expect_args = 1;
                                CHK67( G_wargs == expect_args, "args_num equals the number of variables that were parsed");
                        }
                        if (G_cmd[ci].var_num == 0)
                                CHK67( (W.hl_n == 1) == ((S.hm[ci] & H_WRITE) != 0), "write handler runs iff present (variable-less command)");
                        CHK67(W.units == 1 && !W.malformed, "a WRITE line is answered by a result code alone (it was served as another request type)");
                }
                WITNESS(W.hl_n == 1 && ns >= 2, "write-handler-saw-2-bytes");
                WITNESS(ns >= cap, "over-long");
                WITNESS(W.hl_n == 1 && ns + 1 == cap, "exactly-fits");
        } else {
                if (W.hl_n >= 1) {
                        /* expected text: "+X=" and, for the variable owners, the decimal value (0 when write-only) */
                        char exp[16];
                        unsigned n = 0, val, neg = 0;
                        exp[n++] = '+'; exp[n++] = (char)('A' + ci); exp[n++] = '=';
                        if (ci == 1 && G_cmd[1].var_num > 0 && S.vacc[0] != CAT_VAR_ACCESS_WRITE_ONLY) {
                                val = G_v0;
                                if (val >= 100) exp[n++] = (char)('0' + val / 100);
                                if (val >= 10) exp[n++] = (char)('0' + (val / 10) % 10);
                                exp[n++] = (char)('0' + val % 10);
                        } else if (ci == 2 && G_cmd[2].var_num > 0 && S.vacc[1] != CAT_VAR_ACCESS_WRITE_ONLY) {
                                int sv = (int8_t)G_v1;
                                if (sv < 0) { neg = 1; sv = -sv; }
                                val = (unsigned)sv;
                                if (neg) exp[n++] = '-';
                                if (val >= 100) exp[n++] = (char)('0' + val / 100);
                                if (val >= 10) exp[n++] = (char)('0' + (val / 10) % 10);
                                exp[n++] = (char)('0' + val % 10);
                        }
                        /* a command whose only variable is write-only offers nothing readable: its read handler is
                         * given the bare "+X=" prefix */
                        CHK(C06, W.hl_kind[0] == CAT_CMD_TYPE_READ && W.hl_cmd[0] == ci, "read handler of the addressed command");
                        CHK(C06, G_rmax == cap, "read handler is told the true capacity of the command buffer");
                        CHK(C06, G_rsize == n, "read handler is told the length of the formatted text");
                        for (i = 0; i < 16; i++)
                                if (i < n)
                                        CHK(C06, G_rdata[i] == (uint8_t)exp[i], "read handler is given the automatically formatted text");
                        CHK(C06, G_rdata[n] == 0, "formatted text is NUL-terminated");
                }
                WITNESS(W.hl_n == 1 && G_rsize >= 5, "read-handler-saw-value");
        }
}

#ifndef __CPROVER__
static void scen_sample(void)
{
        static const char shape[] = SHAPESTR;
        unsigned p;
        world_sample();
        for (p = 0; p < L; p++) {
                S.in[p] = shape_sample(shape[p], 0, 0);
        }
        if (rnd(3) == 0 && L > 6 && shape[5] == 'x') { S.in[5] = '1'; }
        S.in_len = L;
}
#endif
