/*
 * r_evq.c - E3 guided run, events only (no command traffic): black-box confirmation of C13 (bounded FIFO, each accepted
 * event delivered exactly once, in order) and of the unit structure of event output (C11), with C15/C18 at the end.
 *
 * Fixed table (+A unused, +B owns a uint8 and has a read handler, +C has read and test handlers). Two triggers with
 * CONCRETE (command, kind) per job (E1, E2: 0 = +B read, 1 = +C read, 2 = +C test) - a symbolic command pointer in the
 * ring made the formula explode - at symbolic steps: the first inside [T0, T0+WIN), the second 0..GAP steps later;
 * one symbolic io->write refusal. Event handlers return EVENT_CODE (fixed per job).
 */
#include <stdint.h>
#include <stddef.h>
#define SYM_NAMES 0
#define SYM_FLAGS 0
#define NVAR 1
#define NH 4
#define NO_OUTLOG
#define EVENT_FIRST_CMD 1
#ifndef EVENT_CODE
#define EVENT_CODE CAT_RETURN_STATE_DATA_OK
#endif
#ifndef T0
#define T0 0
#endif
#ifndef WIN
#define WIN 3
#endif
#ifndef GAP
#define GAP 4
#endif
#ifndef E1
#define E1 0
#endif
#ifndef E2
#define E2 1
#endif
#ifndef RINGCAP
#define RINGCAP 1
#endif
#define L 2

#define SCEN_EXTRA unsigned char d1, d2, refuse_at;

static struct {
        unsigned b_units, c_units, other_units;
        unsigned acc_n;
        unsigned char acc[2];
        int bad_prediction, bad_result, bad_busy;
} X;
static void x_reset(void);
#define WORLD_RESET_EXTRA x_reset()
#define ON_UNIT(kind) x_unit(kind)
static void x_unit(int kind);
#include "world.h"

static void x_reset(void) { WORLD_ZERO(X); }

static void x_unit(int kind)
{
        (void)kind;
        /* "+B=207" or "+C=" - the only texts the event producer can emit in this scenario */
        if (W.u_len == 6 && G_pay[0] == '+' && G_pay[1] == 'B' && G_pay[2] == '=' && G_pay[3] == '2' && G_pay[4] == '0' && G_pay[5] == '7') X.b_units++;
        else if (W.u_len == 3 && G_pay[0] == '+' && G_pay[1] == 'C' && G_pay[2] == '=') X.c_units++;
        else X.other_units++;
}

static void trigger(int which)
{
        cat_status full = cat_is_unsolicited_buffer_full(&W.at), r;
        if (which == 0) r = cat_trigger_unsolicited_read(&W.at, &G_cmd[1]);
        else if (which == 1) r = cat_trigger_unsolicited_read(&W.at, &G_cmd[2]);
        else r = cat_trigger_unsolicited_test(&W.at, &G_cmd[2]);
        if ((r == CAT_STATUS_OK) != (full == CAT_STATUS_OK)) X.bad_prediction = 1;
        if (!(r == CAT_STATUS_OK || r == CAT_STATUS_ERROR_BUFFER_FULL)) X.bad_result = 1;
        if (r == CAT_STATUS_OK) { if (X.acc_n < 2) X.acc[X.acc_n] = (unsigned char)which; X.acc_n++; }
}

static void scen_run(void)
{
        unsigned i, t1, t2, exp_b = 0, exp_c = 0;
        int k, emits = (EVENT_CODE == CAT_RETURN_STATE_DATA_OK);
        cat_status r = CAT_STATUS_BUSY;

        world_assume();
        ASSUME(S.in_len == 0);
        ASSUME(S.hm[0] == 15 && S.hm[1] == 15 && S.hm[2] == 15 && S.capb == 16 && S.vinit[0] == 207);
        ASSUME(S.vacc[0] == 0 && S.vacc[1] == 0 && S.vcb[0] == 0 && S.vcb[1] == 0);
        ASSUME(S.d1 < WIN && S.d2 <= GAP && S.refuse_at <= N);
        world_build();
        W.sched_w = 1;
        for (i = 0; i < N; i++) ASSUME(S.sw[i] == (i == S.refuse_at));
        t1 = T0 + S.d1;
        t2 = t1 + S.d2;

        for (k = 0; k < N; k++) {
                W.k = k;
                if ((unsigned)k == t1) trigger(E1);
                if ((unsigned)k == t2) trigger(E2);
                r = hinted_service(0, k, &W.at);
                if (cat_is_busy(&W.at) == CAT_STATUS_OK && W.u_state != 0)
                        X.bad_busy = 1;
        }
        for (i = 0; i < 2; i++)
                if (i < X.acc_n && emits) { if (X.acc[i] == 0) exp_b++; else exp_c++; }

        CHK(C13, !X.bad_prediction, "cat_is_unsolicited_buffer_full does not predict the trigger outcome");
        CHK(C13, !X.bad_result, "a trigger returned something other than OK / BUFFER_FULL");
        CHK(C13, X.acc_n >= 1, "a trigger on an empty queue was refused");
        CHK(C13, RINGCAP < 2 || X.acc_n == 2, "a trigger was refused although the queue had a free slot");
        CHK(C13, RINGCAP != 1 || S.d2 != 0 || X.acc_n == 1, "an event was accepted beyond the queue capacity");
        CHK(C13, W.hl_n == X.acc_n, "every accepted event's handler runs exactly once");
        for (i = 0; i < NH; i++)
                if (i < W.hl_n && i < 2) {
                        unsigned want_cmd = (X.acc[i] == 0) ? 1u : 2u, want_kind = (X.acc[i] == 2) ? CAT_CMD_TYPE_TEST : CAT_CMD_TYPE_READ;
                        CHK(C13, W.hl_cmd[i] == want_cmd && W.hl_kind[i] == want_kind, "event handlers fire out of acceptance order");
                }
        CHK(C13, X.b_units == exp_b && X.c_units == exp_c, "an accepted event was not delivered exactly once");
        CHK(C11, !W.malformed && W.u_state == 0 && X.other_units == 0, "event output is not a sequence of whole units with the producer's own text");
        CHK(C11, X.b_units == exp_b && X.c_units == exp_c, "an event unit was lost or duplicated");
        CHK(C15, r == CAT_STATUS_OK && cat_is_unsolicited_buffer_full(&W.at) == CAT_STATUS_OK, "not quiescent within the step bound / an event left behind");
        CHK(C18, !X.bad_busy && cat_is_busy(&W.at) == CAT_STATUS_OK, "cat_is_busy idle inside an event unit / busy after quiescence");
        WITNESS(X.acc_n == 2, "both-accepted");
        WITNESS(X.acc_n == 1, "second-refused");
        WITNESS(S.refuse_at < N && W.units >= 1, "a-write-refused");
}

#ifndef __CPROVER__
static void scen_sample(void)
{
        unsigned i;
        world_sample();
        S.in_len = 0;
        S.hm[0] = S.hm[1] = S.hm[2] = 15; S.capb = 16; S.vinit[0] = 207; S.vacc[0] = S.vacc[1] = 0; S.vcb[0] = S.vcb[1] = 0;
        S.d1 = (unsigned char)rnd(WIN); S.d2 = (unsigned char)rnd(GAP + 1);
        S.refuse_at = (unsigned char)(rnd(3) ? N : rnd(N));
        for (i = 0; i < N; i++) S.sw[i] = (unsigned char)(i == S.refuse_at);
}
#endif
