/*
 * r_hold.c - E3 guided run for C14 (HOLD suspends the command until released, then answers exactly once),
 * black box through the public API.
 *
 * Fixed table (+A, +B, +C, all handlers present). Input: two lines, AT+A<form>LF then AT+BLF, both available from
 * the start. The handler of +A addressed by line 1 (run, read, write or test form, KIND) returns HOLD; +B's run handler
 * returns OK. Release requests through cat_hold_exit():
 *     - an optional spurious one BEFORE the hold (service step 1, symbolic status)        -> ERROR_NOT_HOLD, no effect
 *     - the real one at a symbolic step inside the window [T0, T0 + WIN), symbolic status
 *     - optionally a second one in the same step with another status                        -> the last status wins
 *     - an optional spurious one AFTER everything is over                                    -> ERROR_NOT_HOLD, no effect
 * Monitor: from the handler's HOLD return until the release is processed no input byte is consumed (line 2 stays
 * unread) and no result code is emitted, cat_is_hold() = HOLD exactly in that period; afterwards exactly one result code
 * matching the requested status, then line 2 is parsed, +B runs once and is answered OK.
 */
#include <stdint.h>
#include <stddef.h>
#ifndef KIND
#define KIND 0
#endif
#ifndef T0
#define T0 20
#endif
#ifndef WIN
#define WIN 3
#endif
#define SYM_NAMES 0
#define SYM_FLAGS 0
#define NH 4
#define NO_OUTLOG
#define L 12
#define SCEN_EXTRA unsigned char pre, pre_status, d1, status1, twice, status2, post;

static struct {
        int holding;             /* the handler has returned HOLD and the release has not been processed yet (harness-side truth) */
        int released;            /* a release request was accepted */
        int want_ok;             /* status of the last accepted release request */
        unsigned codes, ok_codes, err_codes;
        int code_while_held, read_while_held, bad_is_hold, bad_not_hold, bad_release_result;
        unsigned in_pos_at_hold;
} X;
static void x_reset(void);
#define WORLD_RESET_EXTRA x_reset()
#define ON_UNIT(kind) x_unit(kind)
#define ON_READ_DELIVERED(ch) x_read(ch)
#define ON_WRITE_ACCEPTED(ch) x_write(ch)
static void x_write(unsigned char ch);
static void x_unit(int kind);
static void x_read(unsigned char ch);
static int hold_code(unsigned char b);
#define CODESET(b) ((cat_return_state)hold_code(b))
#include "world.h"

static void x_reset(void) { WORLD_ZERO(X); }

/* +A's handler: HOLD on its first invocation; +B (and anything later): OK */
static int hold_code(unsigned char b)
{
        (void)b;
        if (W.hl_n >= 1 && W.hl_n <= NH && W.hl_cmd[W.hl_n - 1] == 0 && !X.released) {
                X.holding = 1;
                X.in_pos_at_hold = W.in_pos;
                return CAT_RETURN_STATE_HOLD;
        }
        return CAT_RETURN_STATE_OK;
}

static void x_unit(int kind)
{
        if (kind == UNIT_OK || kind == UNIT_ERROR) {
                if (X.holding && !X.released)
                        X.code_while_held = 1;           /* a result code although nobody asked for the release */
                X.codes++;
                if (kind == UNIT_OK) X.ok_codes++; else X.err_codes++;
        }
}

static void x_write(unsigned char ch)
{
        (void)ch;
        /* the first output byte after an accepted release is the held command's result code: the suspension is over */
        if (X.holding && X.released)
                X.holding = 0;
}

static void x_read(unsigned char ch)
{
        (void)ch;
        if (X.holding)
                X.read_while_held = 1;                   /* input consumed while the command is suspended */
}

static void release(unsigned char st)
{
        cat_status want = (st & 1) ? CAT_STATUS_OK : CAT_STATUS_ERROR;
        cat_status r = cat_hold_exit(&W.at, want);
        if (X.holding) {
                if (r != CAT_STATUS_OK) X.bad_release_result = 1;
                X.released = 1;
                X.want_ok = (want == CAT_STATUS_OK);
        } else {
                if (r != CAT_STATUS_ERROR_NOT_HOLD) X.bad_not_hold = 1;
        }
}

static void scen_run(void)
{
        static const char *line1[4] = { "AT+A\n", "AT+A?\n", "AT+A=1\n", "AT+A=?\n" };
        const char *l1 = line1[KIND];
        unsigned i, n1 = (KIND == 0) ? 5 : (KIND == 1) ? 6 : 7, t1;
        int k;
        cat_status r = CAT_STATUS_BUSY;

        world_assume();
        ASSUME(S.in_len == n1 + 5);
        for (i = 0; i < L; i++) {
                if (i < n1) ASSUME(S.in[i] == (unsigned char)l1[i]);
                else if (i < n1 + 5) ASSUME(S.in[i] == (unsigned char)"AT+B\n"[i - n1]);
        }
        ASSUME(S.hm[0] == 15 && S.hm[1] == 15 && S.hm[2] == 15 && S.capb == 16);
        ASSUME(S.vacc[0] == 0 && S.vacc[1] == 0 && S.vcb[0] == 0 && S.vcb[1] == 0);
        ASSUME(S.pre <= 1 && S.twice <= 1 && S.post <= 1 && S.d1 < WIN);
        world_build();
        t1 = T0 + S.d1;

        for (k = 0; k < N; k++) {
                cat_status h;
                W.k = k;
                if (k == 1 && S.pre) release(S.pre_status);                        /* spurious: before the hold */
                if ((unsigned)k == t1) {
                        release(S.status1);
                        if (S.twice) release(S.status2);                            /* repeated: the last status wins */
                }
                if (k == N - 3 && S.post) release(S.pre_status);                   /* spurious: after everything */
                r = hinted_service(0, k, &W.at);
                /* the release is processed by the service call that leaves the hold: from then on the command is not suspended */
                h = cat_is_hold(&W.at);
                if (X.holding && X.released && h != CAT_STATUS_HOLD)
                        X.holding = 0;
                if ((h == CAT_STATUS_HOLD) != (X.holding != 0))
                        X.bad_is_hold = 1;
        }

        CHK(C14, !X.read_while_held, "an input byte was consumed while the command was held");
        CHK(C14, !X.code_while_held, "a result code was emitted for the held command before any release request");
        CHK(C14, !X.bad_is_hold, "cat_is_hold does not report HOLD exactly during the suspension");
        CHK(C14, !X.bad_not_hold, "a release request outside a hold did not report ERROR_NOT_HOLD");
        CHK(C14, !X.bad_release_result, "a release request during the hold was refused");
        CHK(C14, X.released && !X.holding, "the hold was never entered or never left within the step bound");
        CHK(C14, X.codes == 2, "exactly one result code for the held command and one for the next line");
        CHK(C14, (X.want_ok && X.ok_codes == 2 && X.err_codes == 0) || (!X.want_ok && X.ok_codes == 1 && X.err_codes == 1), "the held command's result code does not match the (last) requested status");
        CHK(C14, W.hl_n == 2 && W.hl_cmd[0] == 0 && W.hl_cmd[1] == 1 && W.hl_kind[1] == CAT_CMD_TYPE_RUN, "after the release parsing resumes with the next line (its handler runs once)");
        CHK(C14, r == CAT_STATUS_OK && W.in_pos == S.in_len && W.u_state == 0 && !W.malformed, "not quiescent within the step bound");
        CHK(C18, !X.bad_is_hold, "cat_is_hold reports HOLD iff a command is currently suspended");

        WITNESS(X.released && !X.want_ok && X.err_codes == 1, "released-with-error");
        WITNESS(S.twice && (S.status1 & 1) != (S.status2 & 1), "two-releases-different-status");
        WITNESS(S.pre && S.post, "spurious-releases-before-and-after");
}

#ifndef __CPROVER__
static void scen_sample(void)
{
        static const char *line1[4] = { "AT+A\n", "AT+A?\n", "AT+A=1\n", "AT+A=?\n" };
        const char *l1 = line1[KIND];
        unsigned i, n1 = (unsigned)strlen(l1);
        world_sample();
        for (i = 0; i < n1; i++) S.in[i] = (unsigned char)l1[i];
        for (i = 0; i < 5; i++) S.in[n1 + i] = (unsigned char)"AT+B\n"[i];
        S.in_len = (unsigned char)(n1 + 5);
        S.hm[0] = S.hm[1] = S.hm[2] = 15; S.capb = 16; S.vacc[0] = S.vacc[1] = 0; S.vcb[0] = S.vcb[1] = 0;
        S.pre = (unsigned char)rnd(2); S.pre_status = (unsigned char)rnd(2); S.d1 = (unsigned char)rnd(WIN);
        S.status1 = (unsigned char)rnd(2); S.twice = (unsigned char)rnd(2); S.status2 = (unsigned char)rnd(2); S.post = (unsigned char)rnd(2);
}
#endif
