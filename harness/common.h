/*
 * common.h - dual-build plumbing shared by every harness (DESIGN.md section 3).
 *
 * A harness file defines, before including this header:
 *     struct scen { unsigned char ...; };      every nondeterministic choice, bytes only
 *     #define SCEN_DEFINED
 * and after it:
 *     static void world_reset(void);           re-initialise all mutable harness state
 *     static void scen_run(void);              assumptions, scenario, obligations
 *     static void scen_sample(void);           (native only) fill S with a random instance
 *
 * Under CBMC   : S is nondeterministic, ASSUME/CHECK are __CPROVER_assume/assert.
 * Under gcc    : S comes from a random sampler (--sample) or from a replay file (--replay),
 *                ASSUME violation = "instance invalid", CHECK violation = reported failure.
 * The library under test is the real /repo/src/cat.c, included textually.
 */
#ifndef VERIF_COMMON_H
#define VERIF_COMMON_H

#include <stdint.h>
#include <stddef.h>
#include <stdbool.h>
#include <string.h>
#include <stdarg.h>

#ifndef CAT_C_PATH
#define CAT_C_PATH "/repo/src/cat.c"
#endif

#ifdef __CPROVER__
/* cat.c's snprintf calls are routed to the witness-style model in stubs_cbmc.h */
#define snprintf verif_snprintf
#endif

#include CAT_C_PATH

#ifdef __CPROVER__
#undef snprintf
#include "stubs_cbmc.h"
#endif

#ifndef SCEN_DEFINED
#error "define struct scen and SCEN_DEFINED before including common.h"
#endif

static struct scen S;

/* command table base for the guided-run hints (set by the world builder); lets a hint also pin
 * at->cmd to a concrete table entry */
static const struct cat_command *vf_cmd_base;
static int vf_cmd_n;
#define VF_CMDIDX(p) ((p) == NULL ? -1 : ((vf_cmd_base != NULL && (p) >= vf_cmd_base && (p) < vf_cmd_base + vf_cmd_n) ? (int)((p) - vf_cmd_base) : -2))

/* CBMC zero-initialises statics itself; a memset over a struct that holds pointers would turn
 * every later field access into byte extraction and defeat constant propagation */
#ifdef __CPROVER__
#define WORLD_ZERO(w) do { } while (0)
#else
#define WORLD_ZERO(w) memset(&(w), 0, sizeof(w))
#endif

static void world_reset(void);
static void scen_run(void);

/* ------------------------------------------------------------------------------------ */
#ifdef __CPROVER__

struct scen nondet_scen(void);

#define ASSUME(c) __CPROVER_assume(c)
#ifdef WITNESS_MODE
/* vacuity twin: ordinary obligations are switched off, every WITNESS point must be reachable */
#define CHECK(c, msg) do { (void)(c); } while (0)
#define WITNESS(c, name) __CPROVER_assert(!(c), "witness:" name)
#elif defined(NO_WITNESS)
#define CHECK(c, msg) __CPROVER_assert((c), msg)
#define WITNESS(c, name) do { } while (0)
#else
#define CHECK(c, msg) __CPROVER_assert((c), msg)
/* vacuity guard inside the main run: every witness goal is an assertion that is EXPECTED TO FAIL (the goal is
 * reachable under all assumptions); the runner treats "witness:" results separately from real obligations */
#define WITNESS(c, name) __CPROVER_assert(!(c), "witness:" name)
#endif

#ifdef HINTS_FILE
#include HINTS_FILE
#else
static cat_status hinted_service(int lane, int k, struct cat_object *at)
{
        (void)lane; (void)k;
        return cat_service(at);
}
#endif

int main(void)
{
        S = nondet_scen();
        world_reset();
        scen_run();
        WITNESS(1, "end-of-scenario");
        return 0;
}

/* ------------------------------------------------------------------------------------ */
#else /* native build */

#include <stdio.h>
#include <stdlib.h>
#include <setjmp.h>
#include <signal.h>

static sigjmp_buf vf_jmp;
static int vf_nfail;
static char vf_first_fail[256];
static int vf_verbose;

#define VF_MAXW 64
static const char *vf_wname[VF_MAXW];
static long vf_wcount[VF_MAXW];
static int vf_wn;

static void vf_witness(const char *name)
{
        int i;
        for (i = 0; i < vf_wn; i++)
                if (vf_wname[i] == name || strcmp(vf_wname[i], name) == 0) { vf_wcount[i]++; return; }
        if (vf_wn < VF_MAXW) { vf_wname[vf_wn] = name; vf_wcount[vf_wn] = 1; vf_wn++; }
}

static void vf_check_failed(const char *msg)
{
        if (vf_nfail == 0)
                snprintf(vf_first_fail, sizeof(vf_first_fail), "%s", msg);
        vf_nfail++;
        if (vf_verbose)
                printf("CHECK-FAILED %s\n", msg);
}

#define ASSUME(c) do { if (!(c)) siglongjmp(vf_jmp, 1); } while (0)
#define CHECK(c, msg) do { if (!(c)) vf_check_failed(msg); } while (0)
#define WITNESS(c, name) do { if (c) vf_witness(name); } while (0)

/* hint recording: (lane, step) -> set of control keys (state, event state, cmd index, var index, index).
 * -3 = "not recorded for this state" (field left symbolic), -2 = some other value, -1 = NULL */
#define VF_MAXLANE 2
#define VF_MAXSTEP 400
#define VF_MAXKEYS 200000
static struct vf_key { short lane, k, s, u, c, v, i, t, uc, uv, ui; } vf_keys[VF_MAXKEYS];
static int vf_nkeys;
static unsigned vf_keyhash[1 << 20];
static int vf_hint_on = 1;

static int vf_state_uses_var(int s) { return s == CAT_STATE_PARSE_WRITE_ARGS || s == CAT_STATE_FORMAT_READ_ARGS || s == CAT_STATE_FORMAT_TEST_ARGS; }
static int vf_state_uses_index(int s)
{
        return vf_state_uses_var(s) || s == CAT_STATE_UPDATE_COMMAND_STATE || s == CAT_STATE_SEARCH_COMMAND || s == CAT_STATE_PRINT_CMD;
}

static void vf_key_of(struct cat_object *at, struct vf_key *key)
{
        key->s = (short)at->state;
        key->u = (short)at->unsolicited_fsm.state;
        key->c = (short)VF_CMDIDX(at->cmd);
        key->v = -3;
        key->i = -3;
        if (vf_state_uses_var(key->s) && key->c >= 0) {
                const struct cat_variable *base = at->cmd->var;
                if (at->var == NULL) key->v = -1;
                else if (base != NULL && at->var >= base && at->var < base + at->cmd->var_num) key->v = (short)(at->var - base);
                else key->v = -2;
        }
        if (vf_state_uses_index(key->s))
                key->i = (at->index < 64) ? (short)at->index : -2;
        key->uc = -3; key->uv = -3; key->ui = -3;
        if (key->u != CAT_UNSOLICITED_STATE_IDLE) {
                key->uc = (short)VF_CMDIDX(at->unsolicited_fsm.cmd);
                if ((key->u == CAT_UNSOLICITED_STATE_FORMAT_READ_ARGS || key->u == CAT_UNSOLICITED_STATE_FORMAT_TEST_ARGS) && key->uc >= 0) {
                        const struct cat_variable *ub = at->unsolicited_fsm.cmd->var;
                        if (at->unsolicited_fsm.var == NULL) key->uv = -1;
                        else if (ub != NULL && at->unsolicited_fsm.var >= ub && at->unsolicited_fsm.var < ub + at->unsolicited_fsm.cmd->var_num) key->uv = (short)(at->unsolicited_fsm.var - ub);
                        else key->uv = -2;
                        key->ui = (at->unsolicited_fsm.index < 64) ? (short)at->unsolicited_fsm.index : -2;
                }
        }
        key->t = -3;
        if (key->s == CAT_STATE_PRINT_CMD)
                key->t = ((int)at->cmd_type >= -1 && (int)at->cmd_type <= 4) ? (short)at->cmd_type : -2;
}

static void vf_record(int lane, int k, struct cat_object *at)
{
        struct vf_key key;
        unsigned h, j;
        vf_key_of(at, &key);
        key.lane = (short)lane;
        key.k = (short)k;
        h = (unsigned)(lane * 7919 + k * 104729 + key.s * 1299709 + key.u * 15485863 + key.c * 32452843 + key.v * 49979687 + key.i * 67867967 + key.t * 86028121 + key.uc * 982451653 + key.uv * 472882027 + key.ui * 573259391);
        for (j = 0; j < 64; j++) {
                unsigned slot = (h + j * 2654435761u) & ((1u << 20) - 1);
                unsigned e = vf_keyhash[slot];
                if (e == 0) {
                        if (vf_nkeys < VF_MAXKEYS) { vf_keys[vf_nkeys] = key; vf_keyhash[slot] = (unsigned)(++vf_nkeys); }
                        return;
                }
                if (memcmp(&vf_keys[e - 1], &key, sizeof(key)) == 0)
                        return;
        }
}

static cat_status hinted_service(int lane, int k, struct cat_object *at)
{
        if (vf_hint_on && lane >= 0 && lane < VF_MAXLANE && k >= 0 && k < VF_MAXSTEP)
                vf_record(lane, k, at);
        if (vf_verbose) {
                struct vf_key key;
                vf_key_of(at, &key);
                printf("STEP lane=%d k=%d state=%d ustate=%d cmd=%d var=%d index=%d type=%d ucmd=%d uvar=%d uindex=%d\n", lane, k, key.s, key.u, key.c, key.v, key.i, key.t, key.uc, key.uv, key.ui);
        }
        return cat_service(at);
}

static uint64_t vf_rng_state = 88172645463325252ULL;
static uint64_t vf_rng(void)
{
        vf_rng_state ^= vf_rng_state << 13;
        vf_rng_state ^= vf_rng_state >> 7;
        vf_rng_state ^= vf_rng_state << 17;
        return vf_rng_state;
}
static unsigned rnd(unsigned n) { return n ? (unsigned)(vf_rng() >> 11) % n : 0; }
static unsigned char rnd_pick(const char *set, size_t n) { return (unsigned char)set[rnd((unsigned)n)]; }
static void rnd_bytes(unsigned char *p, size_t n) { size_t i; for (i = 0; i < n; i++) p[i] = (unsigned char)rnd(256); }
#define RND_PICK(lit) rnd_pick(lit, sizeof(lit) - 1)

static void scen_sample(void);

static void vf_sig(int sig)
{
        (void)sig;
        siglongjmp(vf_jmp, 2);
}

static void vf_dump_hex(const char *tag)
{
        size_t i;
        const unsigned char *p = (const unsigned char *)&S;
        printf("%s ", tag);
        for (i = 0; i < sizeof(S); i++)
                printf("%02x", p[i]);
        printf("\n");
}

static int vf_load_hex(const char *path)
{
        FILE *f = fopen(path, "r");
        size_t i;
        unsigned char *p = (unsigned char *)&S;
        if (f == NULL)
                return -1;
        for (i = 0; i < sizeof(S); i++) {
                unsigned v;
                if (fscanf(f, "%2x", &v) != 1) { fclose(f); return -2; }
                p[i] = (unsigned char)v;
        }
        fclose(f);
        return 0;
}

int main(int argc, char **argv)
{
        if (argc >= 2 && strcmp(argv[1], "--size") == 0) {
                printf("%zu\n", sizeof(S));
                return 0;
        }
        if (argc >= 3 && strcmp(argv[1], "--replay") == 0) {
                int r;
                if (vf_load_hex(argv[2]) != 0) { printf("RESULT badfile\n"); return 4; }
                vf_verbose = 1;
                r = sigsetjmp(vf_jmp, 1);
                if (r == 0) {
                        world_reset();
                        scen_run();
                } else {
                        printf("RESULT invalid (assumption violated)\n");
                        return 3;
                }
                if (vf_nfail) { printf("RESULT fail %s\n", vf_first_fail); return 1; }
                printf("RESULT ok\n");
                return 0;
        }
        if (argc >= 5 && strcmp(argv[1], "--mutate") == 0) {
                /* neighbourhood of a given instance: flip 1..3 random bytes, record the control keys visited */
                static struct scen base;
                static long n, i;
                int k;
                if (vf_load_hex(argv[2]) != 0) { printf("RESULT badfile\n"); return 4; }
                base = S;
                n = atol(argv[3]);
                vf_rng_state ^= (uint64_t)atoll(argv[4]) * 0x9E3779B97F4A7C15ULL;
                if (vf_rng_state == 0) vf_rng_state = 1;
                signal(SIGSEGV, vf_sig); signal(SIGABRT, vf_sig); signal(SIGBUS, vf_sig); signal(SIGFPE, vf_sig);
                for (i = 0; i < n; i++) {
                        unsigned m, nm = 1 + rnd(3);
                        S = base;
                        if (i > 0)
                                for (m = 0; m < nm; m++) {
                                        unsigned pos = rnd((unsigned)sizeof(S));
                                        ((unsigned char *)&S)[pos] = rnd(2) ? (unsigned char)rnd(256) : RND_PICK("AT?=,\r\n\"\\0159+ab");
                                }
                        vf_nfail = 0;
                        if (sigsetjmp(vf_jmp, 1) == 0) {
                                world_reset();
                                scen_run();
                        } else {
                                signal(SIGSEGV, vf_sig); signal(SIGABRT, vf_sig); signal(SIGBUS, vf_sig); signal(SIGFPE, vf_sig);
                        }
                }
                for (k = 0; k < vf_nkeys; k++)
                        printf("H %d %d %d %d %d %d %d %d %d %d %d\n", vf_keys[k].lane, vf_keys[k].k, vf_keys[k].s, vf_keys[k].u, vf_keys[k].c, vf_keys[k].v, vf_keys[k].i, vf_keys[k].t, vf_keys[k].uc, vf_keys[k].uv, vf_keys[k].ui);
                return 0;
        }
        if (argc >= 4 && strcmp(argv[1], "--sample") == 0) {
                static long n, i, valid, invalid, crashed, failed, dumped;
                int k;
                n = atol(argv[2]);
                vf_rng_state ^= (uint64_t)atoll(argv[3]) * 0x9E3779B97F4A7C15ULL;
                if (vf_rng_state == 0) vf_rng_state = 1;
                signal(SIGSEGV, vf_sig); signal(SIGABRT, vf_sig); signal(SIGBUS, vf_sig); signal(SIGFPE, vf_sig);
                for (i = 0; i < n; i++) {
                        int r;
                        memset(&S, 0, sizeof(S));
                        scen_sample();
                        vf_nfail = 0;
                        r = sigsetjmp(vf_jmp, 1);
                        if (r == 0) {
                                world_reset();
                                scen_run();
                                valid++;
                                if (vf_nfail) {
                                        failed++;
                                        if (failed <= 3) { printf("F %s\n", vf_first_fail); vf_dump_hex("FX"); }
                                } else if (dumped < 3) {
                                        vf_dump_hex("X");
                                        dumped++;
                                }
                        } else if (r == 1) {
                                invalid++;
                        } else {
                                crashed++;
                                signal(SIGSEGV, vf_sig); signal(SIGABRT, vf_sig); signal(SIGBUS, vf_sig); signal(SIGFPE, vf_sig);
                        }
                }
                for (k = 0; k < vf_nkeys; k++)
                        printf("H %d %d %d %d %d %d %d %d %d %d %d\n", vf_keys[k].lane, vf_keys[k].k, vf_keys[k].s, vf_keys[k].u, vf_keys[k].c, vf_keys[k].v, vf_keys[k].i, vf_keys[k].t, vf_keys[k].uc, vf_keys[k].uv, vf_keys[k].ui);
                for (k = 0; k < vf_wn; k++)
                        printf("W %s %ld\n", vf_wname[k], vf_wcount[k]);
                printf("SAMPLES total=%ld valid=%ld invalid=%ld crashed=%ld checkfail=%ld\n", n, valid, invalid, crashed, failed);
                return 0;
        }
        fprintf(stderr, "usage: %s --sample N SEED | --replay FILE | --size\n", argv[0]);
        return 2;
}

#endif /* __CPROVER__ */

/* per-property obligation switches: a job is compiled with -DPROP_Cxx (or -DPROP_ALL) */
#if defined(PROP_ALL) || defined(PROP_C01)
#define EN_C01 1
#else
#define EN_C01 0
#endif
#if defined(PROP_ALL) || defined(PROP_C02)
#define EN_C02 1
#else
#define EN_C02 0
#endif
#if defined(PROP_ALL) || defined(PROP_C03)
#define EN_C03 1
#else
#define EN_C03 0
#endif
#if defined(PROP_ALL) || defined(PROP_C04)
#define EN_C04 1
#else
#define EN_C04 0
#endif
#if defined(PROP_ALL) || defined(PROP_C05)
#define EN_C05 1
#else
#define EN_C05 0
#endif
#if defined(PROP_ALL) || defined(PROP_C06)
#define EN_C06 1
#else
#define EN_C06 0
#endif
#if defined(PROP_ALL) || defined(PROP_C07)
#define EN_C07 1
#else
#define EN_C07 0
#endif
#if defined(PROP_ALL) || defined(PROP_C08)
#define EN_C08 1
#else
#define EN_C08 0
#endif
#if defined(PROP_ALL) || defined(PROP_C09)
#define EN_C09 1
#else
#define EN_C09 0
#endif
#if defined(PROP_ALL) || defined(PROP_C10)
#define EN_C10 1
#else
#define EN_C10 0
#endif
#if defined(PROP_ALL) || defined(PROP_C11)
#define EN_C11 1
#else
#define EN_C11 0
#endif
#if defined(PROP_ALL) || defined(PROP_C12)
#define EN_C12 1
#else
#define EN_C12 0
#endif
#if defined(PROP_ALL) || defined(PROP_C13)
#define EN_C13 1
#else
#define EN_C13 0
#endif
#if defined(PROP_ALL) || defined(PROP_C14)
#define EN_C14 1
#else
#define EN_C14 0
#endif
#if defined(PROP_ALL) || defined(PROP_C15)
#define EN_C15 1
#else
#define EN_C15 0
#endif
#if defined(PROP_ALL) || defined(PROP_C16)
#define EN_C16 1
#else
#define EN_C16 0
#endif
#if defined(PROP_ALL) || defined(PROP_C17)
#define EN_C17 1
#else
#define EN_C17 0
#endif
#if defined(PROP_ALL) || defined(PROP_C18)
#define EN_C18 1
#else
#define EN_C18 0
#endif
#if defined(PROP_ALL) || defined(PROP_C19)
#define EN_C19 1
#else
#define EN_C19 0
#endif
#if defined(PROP_ALL) || defined(PROP_C20)
#define EN_C20 1
#else
#define EN_C20 0
#endif
#define CHK(P, c, msg) do { if (EN_##P) CHECK((c), #P ": " msg); } while (0)

/* small helpers usable in both builds */
static inline uint32_t vf_u32(const unsigned char *b)
{
        return (uint32_t)b[0] | ((uint32_t)b[1] << 8) | ((uint32_t)b[2] << 16) | ((uint32_t)b[3] << 24);
}

#endif /* VERIF_COMMON_H */
