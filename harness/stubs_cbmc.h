/*
 * stubs_cbmc.h - CBMC-only model of snprintf, specialised to the format strings cat.c uses:
 *     "%d" "%u" "%02X" "0x%02X" "0x%04X" "0x%08X"        (one 32-bit argument each)
 * Decimal digits are nondeterministic witnesses constrained by a Horner evaluation (no division),
 * hexadecimal digits are shifts. Any other format string is a failed obligation: a change of the
 * format strings must be noticed, not mis-modelled. Validated against libc by harness k_snprintf.c.
 */
#ifndef VERIF_STUBS_CBMC_H
#define VERIF_STUBS_CBMC_H

unsigned char nondet_uchar(void);

/* strncpy with the standard semantics (copy up to the NUL, pad with NULs to n); replaces CBMC's
 * built-in model, which costs ~80 SSA steps per byte and is instantiated at ~30 ack_error() sites */
char *strncpy(char *dst, const char *src, size_t n)
{
        size_t i;
        _Bool end = 0;
        for (i = 0; i < n; i++) {
                if (!end && src[i] == 0)
                        end = 1;
                dst[i] = end ? 0 : src[i];
        }
        return dst;
}

static int verif_emit(char *buf, size_t n, const char *txt, int len)
{
        int i;
        if (n > 0) {
                for (i = 0; i < len && (size_t)i + 1 < n; i++)
                        buf[i] = txt[i];
                buf[i] = 0;
        }
        return len;
}

static int verif_fmt_dec(char *txt, uint64_t mag, int neg)
{
        /* mag <= 2^32: at most 10 digits */
        unsigned char nd = nondet_uchar();
        unsigned char d[10];
        uint64_t acc = 0;
        int i, p = 0;
        __CPROVER_assume(nd >= 1 && nd <= 10);
        for (i = 0; i < 10; i++) {
                d[i] = nondet_uchar();
                __CPROVER_assume(d[i] <= 9);
                if (i < nd)
                        acc = acc * 10 + d[i];
        }
        __CPROVER_assume(acc == mag);
        __CPROVER_assume(nd == 1 || d[0] != 0);
        if (neg)
                txt[p++] = '-';
        for (i = 0; i < 10; i++)
                if (i < nd)
                        txt[p++] = (char)('0' + d[i]);
        return p;
}

static int verif_fmt_hex(char *txt, uint32_t v, int width, int prefix)
{
        int p = 0, i, nd = 1;
        if (prefix) { txt[p++] = '0'; txt[p++] = 'x'; }
        for (i = 1; i < 8; i++)
                if ((v >> (4 * i)) != 0)
                        nd = i + 1;
        if (nd < width)
                nd = width;
        for (i = nd - 1; i >= 0; i--) {
                unsigned dgt = (v >> (4 * i)) & 0xFU;
                txt[p++] = (char)(dgt < 10 ? '0' + dgt : 'A' + (dgt - 10));
        }
        return p;
}

int verif_snprintf(char *buf, size_t n, const char *fmt, ...)
{
        va_list ap;
        char txt[16];
        int len = 0;
        va_start(ap, fmt);
        if (fmt[0] == '%' && fmt[1] == 'd' && fmt[2] == 0) {
                int32_t v = va_arg(ap, int32_t);
                int64_t w = v;
                len = verif_fmt_dec(txt, (uint64_t)(w < 0 ? -w : w), w < 0);
        } else if (fmt[0] == '%' && fmt[1] == 'u' && fmt[2] == 0) {
                uint32_t v = va_arg(ap, uint32_t);
                len = verif_fmt_dec(txt, v, 0);
        } else if (fmt[0] == '%' && fmt[1] == '0' && fmt[2] == '2' && fmt[3] == 'X' && fmt[4] == 0) {
                uint32_t v = va_arg(ap, uint32_t);
                len = verif_fmt_hex(txt, v, 2, 0);
        } else if (fmt[0] == '0' && fmt[1] == 'x' && fmt[2] == '%' && fmt[3] == '0' &&
                   (fmt[4] == '2' || fmt[4] == '4' || fmt[4] == '8') && fmt[5] == 'X' && fmt[6] == 0) {
                uint32_t v = va_arg(ap, uint32_t);
                len = verif_fmt_hex(txt, v, fmt[4] - '0', 1);
        } else {
                __CPROVER_assert(0, "snprintf-model: unknown format string (model does not apply)");
                __CPROVER_assume(0);
        }
        va_end(ap);
        return verif_emit(buf, n, txt, len);
}

#endif
