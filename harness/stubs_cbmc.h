/*
 * stubs_cbmc.h - CBMC-only model of snprintf for the format strings cat.c uses:
 *     "%d" "%u" "%02X" "0x%02X" "0x%04X" "0x%08X"        (one 32-bit argument each; plus %s %c for refactored code)
 * Decimal digits are nondeterministic witnesses constrained by a Horner evaluation (no division),
 * hexadecimal digits are shifts. Any other format string is a failed obligation: a change of the
 * format strings must be noticed, not mis-modelled. Validated against libc by harness k_snprintf.c.
 */
#ifndef VERIF_STUBS_CBMC_H
#define VERIF_STUBS_CBMC_H

unsigned char nondet_uchar(void);

/* strncpy with the standard semantics (copy up to the NUL, pad with NULs to n); replaces CBMC's
 * built-in model, which costs ~80 SSA steps per byte and is instantiated at ~30 ack_error() sites */
char *strncpy(char *dst, const char *src, size_t n)
{
        size_t i;
        _Bool end = 0;
        for (i = 0; i < n; i++) {
                if (!end && src[i] == 0)
                        end = 1;
                dst[i] = end ? 0 : src[i];
        }
        return dst;
}

/* memcpy with the standard semantics as a byte loop: CBMC's built-in model turns a copy of SYMBOLIC length (cat.c:
 * print_nstring_to_buf copies strlen(name) bytes) into a byte_update with a variable-size source, which is cheap once or
 * twice but exhausted 15-30 GB as soon as the event FSM formats into its buffer over a guided run */
void *memcpy(void *dst, const void *src, size_t n)
{
        size_t i;
        for (i = 0; i < n; i++)
                ((unsigned char *)dst)[i] = ((const unsigned char *)src)[i];
        return dst;
}

static int verif_emit(char *buf, size_t n, const char *txt, int len)
{
        int i;
        if (n > 0) {
                for (i = 0; i < len && (size_t)i + 1 < n; i++)
                        buf[i] = txt[i];
                buf[i] = 0;
        }
        return len;
}

static int verif_fmt_dec(char *txt, uint64_t mag, int neg)
{
        /* mag <= 2^32: at most 10 digits */
        unsigned char nd = nondet_uchar();
        unsigned char d[10];
        uint64_t acc = 0;
        int i, p = 0;
        __CPROVER_assume(nd >= 1 && nd <= 10);
        for (i = 0; i < 10; i++) {
                d[i] = nondet_uchar();
                __CPROVER_assume(d[i] <= 9);
                if (i < nd)
                        acc = acc * 10 + d[i];
        }
        __CPROVER_assume(acc == mag);
        __CPROVER_assume(nd == 1 || d[0] != 0);
        if (neg)
                txt[p++] = '-';
        for (i = 0; i < 10; i++)
                if (i < nd)
                        txt[p++] = (char)('0' + d[i]);
        return p;
}

static int verif_fmt_hex(char *txt, uint32_t v, int width, int prefix)
{
        int p = 0, i, nd = 1;
        if (prefix) { txt[p++] = '0'; txt[p++] = 'x'; }
        for (i = 1; i < 8; i++)
                if ((v >> (4 * i)) != 0)
                        nd = i + 1;
        if (nd < width)
                nd = width;
        for (i = nd - 1; i >= 0; i--) {
                unsigned dgt = (v >> (4 * i)) & 0xFU;
                txt[p++] = (char)(dgt < 10 ? '0' + dgt : 'A' + (dgt - 10));
        }
        return p;
}

/* a small interpreter for the conversions cat.c uses today (%d %u %02X %04X %08X, literal text) plus %s, %c and
 * plain %X / %x, so that a refactor which builds a line with one snprintf call is still modelled; anything
 * else is a failed "snprintf-model" obligation (job inconclusive), never a silent mis-model */
#define VERIF_SNP_MAX 64
int verif_snprintf(char *buf, size_t n, const char *fmt, ...)
{
        va_list ap;
        char txt[VERIF_SNP_MAX];
        char piece[16];
        int len = 0, i, f = 0, plen;
        va_start(ap, fmt);
        /* fast paths for the six format strings of the current cat.c: small fixed-size text, no interpreter (the general
         * path below costs ~10x more SSA steps per call because every piece is copied at a symbolic offset) */
        if (fmt[0] == '%' && (fmt[1] == 'd' || fmt[1] == 'u') && fmt[2] == 0) {
                char t16[16];
                if (fmt[1] == 'd') {
                        int32_t v = va_arg(ap, int32_t);
                        int64_t w = v;
                        len = verif_fmt_dec(t16, (uint64_t)(w < 0 ? -w : w), w < 0);
                } else {
                        uint32_t v = va_arg(ap, uint32_t);
                        len = verif_fmt_dec(t16, v, 0);
                }
                va_end(ap);
                return verif_emit(buf, n, t16, len);
        }
        if (fmt[0] == '%' && fmt[1] == '0' && fmt[2] == '2' && fmt[3] == 'X' && fmt[4] == 0) {
                char t16[16];
                uint32_t v = va_arg(ap, uint32_t);
                len = verif_fmt_hex(t16, v, 2, 0);
                va_end(ap);
                return verif_emit(buf, n, t16, len);
        }
        if (fmt[0] == '0' && fmt[1] == 'x' && fmt[2] == '%' && fmt[3] == '0' && (fmt[4] == '2' || fmt[4] == '4' || fmt[4] == '8') && fmt[5] == 'X' && fmt[6] == 0) {
                char t16[16];
                uint32_t v = va_arg(ap, uint32_t);
                len = verif_fmt_hex(t16, v, fmt[4] - '0', 1);
                va_end(ap);
                return verif_emit(buf, n, t16, len);
        }
        for (i = 0; i < 12; i++) {
                char c = fmt[f];
                if (c == 0)
                        break;
                if (c != '%') {
                        if (len < VERIF_SNP_MAX) txt[len] = c;
                        len++;
                        f++;
                        continue;
                }
                f++;
                {
                        int width = 0, zero = 0, k;
                        if (fmt[f] == '0') { zero = 1; f++; }
                        if (fmt[f] >= '1' && fmt[f] <= '9') { width = fmt[f] - '0'; f++; }
                        c = fmt[f++];
                        plen = 0;
                        if (c == 'd' && !zero && width == 0) {
                                int32_t v = va_arg(ap, int32_t);
                                int64_t w = v;
                                plen = verif_fmt_dec(piece, (uint64_t)(w < 0 ? -w : w), w < 0);
                        } else if (c == 'u' && !zero && width == 0) {
                                uint32_t v = va_arg(ap, uint32_t);
                                plen = verif_fmt_dec(piece, v, 0);
                        } else if (c == 'X' && (zero || width == 0)) {
                                uint32_t v = va_arg(ap, uint32_t);
                                plen = verif_fmt_hex(piece, v, width ? width : 1, 0);
                        } else if (c == 'c' && !zero && width == 0) {
                                piece[0] = (char)va_arg(ap, int);
                                plen = 1;
                        } else if (c == 's' && !zero && width == 0) {
                                const char *str = va_arg(ap, const char *);
                                for (k = 0; k < VERIF_SNP_MAX; k++) {
                                        if (str[k] == 0)
                                                break;
                                        if (len < VERIF_SNP_MAX) txt[len] = str[k];
                                        len++;
                                }
                                __CPROVER_assert(k < VERIF_SNP_MAX, "snprintf-model: %s argument longer than the model handles");
                                continue;
                        } else if (c == '%') {
                                piece[0] = '%';
                                plen = 1;
                        } else {
                                __CPROVER_assert(0, "snprintf-model: unknown conversion (model does not apply)");
                                __CPROVER_assume(0);
                        }
                        for (k = 0; k < 16; k++)
                                if (k < plen) {
                                        if (len < VERIF_SNP_MAX) txt[len] = piece[k];
                                        len++;
                                }
                }
        }
        __CPROVER_assert(fmt[f] == 0, "snprintf-model: format string longer than the model handles");
        __CPROVER_assert(len <= VERIF_SNP_MAX, "snprintf-model: output longer than the model handles");
        va_end(ap);
        return verif_emit(buf, n, txt, len);
}

#endif
