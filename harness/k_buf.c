/*
 * k_buf.c - E1 kernel harness for C05 (and, with the standard checks on, part of C03):
 * the real parse_write_args() -> parse_buffer_hexadecimal / parse_buffer_string on a symbolic
 * argument text, variable of symbolic data_size 1..8 embedded between canaries, compared with
 * reference decoders written as explicit automata.
 *
 * Build macros: VT = 3 hex buffer, 4 string;  LEN = max text length.
 */
#ifndef VT
#define VT 3
#endif
#ifndef LEN
#define LEN 10
#endif
#define MAXDS 8

struct scen {
        unsigned char text[LEN];
        unsigned char tlen;      /* 0..LEN */
        unsigned char comma;     /* 1: followed by ",5" for a 2nd (uint8) variable */
        unsigned char ds;        /* 1..8 */
        unsigned char access;    /* 0 RW, 1 RO, 2 WO */
        unsigned char init[MAXDS + 4];
        unsigned char wfail;
};
#define SCEN_DEFINED
#include "common.h"

#define CAP (LEN + 4)

static struct {
        struct cat_object at;
        struct cat_descriptor desc;
        struct cat_command_group grp;
        struct cat_command_group *grps[1];
        struct cat_command cmd;
        struct cat_variable var[2];
        struct cat_io_interface io;
        uint8_t second;
        int wcalls0, wcalls1;
        size_t wsize0;
} W;
/* buffers written through pointers are separate objects: a symbolic-offset store into one big
 * struct would turn every later field access into byte extraction */
static uint8_t G_buf[CAP];
static uint8_t G_store[MAXDS + 4]; /* [0..1] canary, [2..2+ds) variable, rest canary */

static int io_write(char c) { (void)c; return 1; }
static int io_read(char *c) { (void)c; return 0; }

static int var_write(const struct cat_variable *v, const size_t n)
{
        if (v == &W.var[0]) {
                W.wcalls0++;
                W.wsize0 = n;
                return S.wfail ? 1 : 0;
        }
        W.wcalls1++;
        return 0;
}

static void world_reset(void)
{
        WORLD_ZERO(W);
        WORLD_ZERO(G_buf);
        WORLD_ZERO(G_store);
}

static int hexval(unsigned char c)
{
        if (c >= '0' && c <= '9') return c - '0';
        if (c >= 'A' && c <= 'F') return c - 'A' + 10;
        if (c >= 'a' && c <= 'f') return c - 'a' + 10;
        return -1;
}

/* reference decoders: return 1 when the whole text [0,n) is one well-formed argument that fits,
 * dec[0..*dlen) the decoded bytes */
static int reference(const unsigned char *t, unsigned n, unsigned ds, unsigned char *dec, unsigned *dlen)
{
        unsigned i, k = 0;
#if VT == 3
        if (n == 0 || (n & 1u))
                return 0;
        for (i = 0; i < LEN; i++)
                if (i < n && hexval(t[i]) < 0)
                        return 0;
        if (n / 2 > ds)
                return 0;
        for (i = 0; i + 1 < LEN; i += 2)
                if (i + 1 < n)
                        dec[k++] = (unsigned char)((hexval(t[i]) << 4) | hexval(t[i + 1]));
        *dlen = k;
        return 1;
#else
        int esc = 0, closed = 0, toolong = 0;
        if (n < 2 || t[0] != '"')
                return 0;
        for (i = 1; i < LEN; i++) {
                if (i < n) {
                        unsigned char c = t[i];
                        if (closed)
                                return 0; /* something follows the closing quote */
                        if (esc) {
                                if (c == '\\' || c == '"') { /* as is */ }
                                else if (c == 'n') c = '\n';
                                else return 0;
                                esc = 0;
                        } else if (c == '\\') {
                                esc = 1;
                                continue;
                        } else if (c == '"') {
                                closed = 1;
                                continue;
                        }
                        if (k < MAXDS) dec[k] = c;
                        k++;
                        if (k > ds) toolong = 1;
                }
        }
        if (!closed)
                return 0;
        if (toolong || k + 1 > ds)
                return 0; /* decoded length must be <= data_size - 1 */
        *dlen = k;
        return 1;
#endif
}

static void scen_run(void)
{
        unsigned i, n = S.tlen, ds = S.ds, dlen = 0;
        unsigned char dec[MAXDS + 2];
        int ok, accepted;

        ASSUME(n <= LEN);
        ASSUME(ds >= 1 && ds <= MAXDS);
        ASSUME(S.access <= 2 && S.comma <= 1 && S.wfail <= 1);
        for (i = 0; i < LEN; i++)
                if (i < n)
                        ASSUME(S.text[i] != 0 && (VT == 4 || S.text[i] != ','));
        for (i = 0; i < MAXDS + 2; i++) dec[i] = 0;
#if VT == 4
        /* a comma directly after a closing quote inside the text would start a further argument: the
         * top-level comma is modelled by S.comma only. (Commas inside the quotes are ordinary bytes.) */
        {
                int esc = 0, inq = 0;
                for (i = 0; i < LEN; i++) {
                        if (i < n) {
                                unsigned char c = S.text[i];
                                if (i == 0) { inq = (c == '"'); continue; }
                                if (!inq) { ASSUME(c != ','); continue; }
                                if (esc) esc = 0;
                                else if (c == '\\') esc = 1;
                                else if (c == '"') inq = 0;
                        }
                }
        }
#endif

        W.io.read = io_read; W.io.write = io_write;
        W.var[0].type = (cat_var_type)VT;
        W.var[0].data = &G_store[2];
        W.var[0].data_size = ds;
        W.var[0].access = (cat_var_access)S.access;
        W.var[0].write = var_write;
        W.var[1].type = CAT_VAR_UINT_DEC;
        W.var[1].data = &W.second;
        W.var[1].data_size = 1;
        W.var[1].write = var_write;
        W.cmd.name = "+V";
        W.cmd.var = W.var;
        W.cmd.var_num = 2;
        W.grp.cmd = &W.cmd; W.grp.cmd_num = 1;
        W.grps[0] = &W.grp;
        W.desc.cmd_group = W.grps; W.desc.cmd_group_num = 1;
        W.desc.buf = G_buf; W.desc.buf_size = CAP;
        W.desc.unsolicited_buf = &W.second;
        W.desc.unsolicited_buf_size = 1;
        cat_init(&W.at, &W.desc, &W.io, NULL);

        for (i = 0; i < MAXDS + 4; i++) G_store[i] = S.init[i];

        for (i = 0; i < LEN; i++)
                if (i < n) G_buf[i] = S.text[i];
        if (S.comma) { G_buf[n] = ','; G_buf[n + 1] = '5'; G_buf[n + 2] = 0; W.at.length = n + 2; }
        else { G_buf[n] = 0; W.at.length = n; }

        W.at.cmd = &W.cmd;
        W.at.cmd_type = CAT_CMD_TYPE_WRITE;
        W.at.state = CAT_STATE_PARSE_WRITE_ARGS;
        W.at.position = 0;
        W.at.index = 0;
        W.at.var = &W.var[0];

        parse_write_args(&W.at);
        if (W.at.state == CAT_STATE_PARSE_WRITE_ARGS) {
                CHK(C05, W.at.var == &W.var[1] && W.at.index == 1, "second argument goes to the second variable");
                ASSUME(W.at.var == &W.var[1] && W.at.index == 1);
                W.at.var = &W.var[1];
                W.at.index = 1;
                parse_write_args(&W.at);
        }

        CHK(C05, W.at.state == CAT_STATE_FLUSH_IO_WRITE_WAIT, "argument parsing ends in a result code");
        accepted = (G_buf[0] == 'O' && G_buf[1] == 'K' && G_buf[2] == 0);
        CHK(C05, accepted || (G_buf[0] == 'E' && G_buf[1] == 'R' && G_buf[2] == 'R' && G_buf[3] == 'O' && G_buf[4] == 'R' && G_buf[5] == 0),
            "answer is OK or ERROR");

        ok = reference(S.text, n, ds, dec, &dlen);

        /* in no case is a byte outside [0, data_size) modified */
        CHK(C05, G_store[0] == S.init[0] && G_store[1] == S.init[1], "bytes before the variable untouched");
        for (i = 0; i < MAXDS + 2; i++)
                if (i >= ds)
                        CHK(C05, G_store[2 + i] == S.init[2 + i], "no byte at or beyond data_size is modified");

        if (S.access == CAT_VAR_ACCESS_READ_ONLY) {
                for (i = 0; i < MAXDS; i++)
                        CHK(C08, G_store[2 + i] == S.init[2 + i], "read-only variable keeps its value");
        } else {
                CHK(C05, accepted == (ok && !S.wfail), "accepted iff the text is a well-formed argument that fits");
                if (ok) {
                        for (i = 0; i < MAXDS; i++)
                                if (i < dlen)
                                        CHK(C05, G_store[2 + i] == dec[i], "variable holds the decoded bytes");
#if VT == 4
                        CHK(C05, G_store[2 + dlen] == 0, "string is NUL-terminated at the decoded length");
#endif
                        for (i = 0; i < MAXDS; i++)
                                if (i > dlen || (VT == 3 && i == dlen))
                                        CHK(C05, G_store[2 + i] == S.init[2 + i], "bytes after the decoded data keep their value");
                        CHK(C05, W.wcalls0 == 1 && W.wsize0 == dlen, "variable write callback told the decoded length");
                } else {
                        CHK(C05, W.wcalls0 == 0, "no write callback for a rejected argument");
                        CHK(C05, W.wcalls1 == 0 && W.second == 0, "arguments after a rejected one are not stored");
                }
                if (ok && !S.wfail && S.comma)
                        CHK(C05, W.second == 5 && W.wcalls1 == 1, "following argument parsed");
                WITNESS(ok && dlen == ds - (VT == 4) && dlen >= 2, "accepted-at-exact-capacity");
                WITNESS(!ok && n >= 4, "rejected-long");
                WITNESS(ok && S.comma, "first-of-two");
#if VT == 4
                WITNESS(ok && dlen + 2 < n && dlen >= 1, "accepted-with-escape");
#endif
        }
}

#ifndef __CPROVER__
static void scen_sample(void)
{
        unsigned i, n = rnd(LEN + 1), p = 0;
        S.ds = (unsigned char)(1 + rnd(MAXDS));
        for (i = 0; i < LEN; i++) S.text[i] = 'x';
#if VT == 3
        for (i = 0; i < LEN; i++)
                S.text[i] = rnd(25) ? RND_PICK("0123456789abcdefABCDEF") : (unsigned char)(1 + rnd(255));
        for (i = 0; i < LEN; i++) if (S.text[i] == ',') S.text[i] = 'G';
        if (rnd(2)) n = 2 * (S.ds - rnd(2) + rnd(2));
        if (n > LEN) n = LEN;
#else
        if (rnd(10)) S.text[p++] = '"';
        while (p + 1 < n) {
                unsigned r = rnd(12);
                if (r == 0 && p + 2 < n) { S.text[p++] = '\\'; S.text[p++] = RND_PICK("\\\"nn\"x"); }
                else if (r == 1) S.text[p++] = RND_PICK("\",\\");
                else S.text[p++] = rnd(8) ? RND_PICK("abcXYZ019 ,") : (unsigned char)(1 + rnd(255));
        }
        if (n >= 2 && rnd(10)) S.text[n - 1] = '"';
#endif
        S.tlen = (unsigned char)n;
        S.comma = (unsigned char)rnd(2);
        S.access = (unsigned char)(rnd(4) == 0 ? 1 + rnd(2) : 0);
        rnd_bytes(S.init, sizeof(S.init));
        S.wfail = (unsigned char)(rnd(6) == 0);
}
#endif
