/*
 * r_list.c - E3 guided run for C19 (command list) and the PRINT_CMD_LIST_OK row of C10.
 *
 * Fixed names +A, +B (, +C with M=3) in two groups (the last command forms the second group); +A's run
 * handler asks for the list (PRINT_CMD_LIST_OK); everything else is symbolic: handler subsets,
 * only_test / disable / implicit_write flags, group disable, variable access mode (+B owns a uint8),
 * buffer capacity, CR in the request. The expected output is produced byte by byte by an online
 * reference generator driven by the predicate advertised(cmd, form) = "the dispatcher would accept
 * AT<name><form>", and every accepted output byte is compared with it.
 */
#include <stdint.h>
#include <stddef.h>
#define SYM_NAMES 0
#define NVAR 1   /* +B owns a uint8; a third command has no variable and may therefore be implicit-write */
#define NH 2
#define NO_OUTLOG
#define NO_UNITS   /* the command list has its own framing: compared byte by byte below */
#ifndef OUTMAX
#define OUTMAX 8
#endif
#ifndef M
#define M 2
#endif
#define G 2
#define G1_START (M - 1)
#ifndef REQ
#define REQ 0            /* the command whose run handler asks for the list: 0 = first of the table, M - 1 = last (then the FIRST command may be disabled) */
#endif
#define REQG ((REQ) >= G1_START ? 1 : 0)
static int list_code(unsigned char b);
#define CODESET(b) ((cat_return_state)list_code(b))

#define NSLOT (4 * M)
static struct {
        /* precomputed, concrete-indexed: slot = 4 * command + form */
        unsigned char on[NSLOT + 1], lead[NSLOT + 1], len[NSLOT + 1];
        int fail_slot;           /* first advertised line that does not fit (NSLOT: none) */
        /* online matcher */
        unsigned slot, pos;
        int done, mismatch, extra;
        unsigned lines;
} X;
static void twin_reset(void);
#define WORLD_RESET_EXTRA twin_reset()
#define ON_WRITE_ACCEPTED(ch) ref_check(ch)
static void ref_check(unsigned char ch);

#include "world.h"

static void twin_reset(void) { WORLD_ZERO(X); }
static int list_code(unsigned char b) { (void)b; return CAT_RETURN_STATE_PRINT_CMD_LIST_OK; }

static int g_cr;
static unsigned g_cap;

static int readable(unsigned i) { return i == 1 && G_cmd[1].var_num > 0 && S.vacc[0] != CAT_VAR_ACCESS_WRITE_ONLY; }
static int writable(unsigned i) { return i == 1 && G_cmd[1].var_num > 0 && S.vacc[0] != CAT_VAR_ACCESS_READ_ONLY; }

/* would the dispatcher accept AT<name><form> for command i?  form: 0 run, 1 '?', 2 '=', 3 '=?' */
static int advertised(unsigned i, unsigned form)
{
        int ot = (S.fl[i] & F_ONLY_TEST) != 0;
        switch (form) {
        case 0: return !ot && (S.hm[i] & H_RUN);
        case 1: return !ot && ((S.hm[i] & H_READ) || readable(i));
        case 2: return !ot && ((S.hm[i] & H_WRITE) || writable(i));
        default: return (S.hm[i] & H_TEST) || G_cmd[i].var_num > 0;
        }
}

/* the byte the reference expects at position pos of the line in slot (slot == NSLOT: the final unit) */
static int ref_byte(unsigned slot, unsigned pos)
{
        unsigned nl = g_cr ? 2u : 1u, p = pos;
        if (slot >= NSLOT || (int)slot == X.fail_slot) {
                /* final unit: newline, OK or ERROR, newline */
                static const char ok[] = "OK", er[] = "ERROR";
                int err = ((int)slot == X.fail_slot) && slot < NSLOT;
                unsigned tl = err ? 5u : 2u;
                if (p < nl) return (g_cr && p == 0) ? '\r' : '\n';
                p -= nl;
                if (p < tl) return err ? er[p] : ok[p];
                p -= tl;
                if (p < nl) return (g_cr && p == 0) ? '\r' : '\n';
                return -1;
        }
        if (X.lead[slot]) {
                if (p < nl) return (g_cr && p == 0) ? '\r' : '\n';
                p -= nl;
        }
        if (p == 0) return 'A';
        if (p == 1) return 'T';
        if (p == 2) return '+';
        if (p == 3) return 'A' + (int)(slot / 4);
        p -= 4;
        switch (slot % 4) {
        case 1: if (p == 0) return '?'; p -= 1; break;
        case 2: if (p == 0) return '='; p -= 1; break;
        case 3: if (p == 0) return '='; if (p == 1) return '?'; p -= 2; break;
        default: break;
        }
        if (p < nl) return (g_cr && p == 0) ? '\r' : '\n';
        return -1;
}

static unsigned ref_len(unsigned slot)
{
        unsigned nl = g_cr ? 2u : 1u;
        if (slot >= NSLOT) return nl + 2u + nl;
        if ((int)slot == X.fail_slot) return nl + 5u + nl;
        return X.len[slot];
}

static unsigned next_on(unsigned from)
{
        unsigned sl, res = NSLOT;
        for (sl = 0; sl < NSLOT; sl++)
                if (sl >= from && res == NSLOT && X.on[sl])
                        res = sl;
        return res;
}

static void ref_prepare(void)
{
        unsigned c, f, nl = g_cr ? 2u : 1u;
        X.fail_slot = NSLOT;
        for (c = 0; c < M; c++) {
                int seen = 0;
                for (f = 0; f < 4; f++) {
                        unsigned sl = 4 * c + f;
                        X.on[sl] = (unsigned char)(cmd_enabled(c) && advertised(c, f));   /* disabled command or group: nothing is printed */
                        X.lead[sl] = (unsigned char)(X.on[sl] && !seen);                   /* every command's block starts with a newline of its own */
                        if (X.on[sl]) seen = 1;
                        X.len[sl] = (unsigned char)((X.lead[sl] ? nl : 0u) + 4u + (f == 3 ? 2u : f == 0 ? 0u : 1u) + nl);
                        if (X.on[sl] && X.len[sl] >= g_cap && X.fail_slot == NSLOT)
                                X.fail_slot = (int)sl;                                     /* does not fit: ERROR, never a truncated line */
                }
        }
        X.slot = next_on(0);
        X.pos = 0;
}

static void ref_check(unsigned char ch)
{
        if (X.done) { X.extra = 1; return; }
        if (ref_byte(X.slot, X.pos) != (int)ch)
                X.mismatch = 1;
        X.pos++;
        if (X.pos >= ref_len(X.slot)) {
                if (X.slot >= NSLOT || (int)X.slot == X.fail_slot) {
                        X.done = 1;
                } else {
                        X.lines++;
                        X.slot = next_on(X.slot + 1);
                        X.pos = 0;
                }
        }
}

static void scen_run(void)
{
        unsigned i;
        int k;
        cat_status r = CAT_STATUS_BUSY;

        world_assume();
        /* the request: AT+A<CR>?LF, +A enabled with a run handler and not test-only */
        ASSUME(S.in[0] == 'A' && S.in[1] == 'T' && S.in[2] == '+' && S.in[3] == 'A' + (REQ));
        ASSUME((S.in_len == 5 && S.in[4] == '\n') || (S.in_len == 6 && S.in[4] == '\r' && S.in[5] == '\n'));
        ASSUME(!(S.fl[REQ] & (F_DISABLE | F_ONLY_TEST | F_IMPLICIT)) && (S.hm[REQ] & H_RUN) && !S.gd[REQG]);
        g_cr = (S.in_len == 6);
        world_build();
        g_cap = cmd_half_cap();
        /* implicit-write commands that own variables are outside the property: leave them out of the scenario */
        for (i = 0; i < M; i++)
                ASSUME(!((S.fl[i] & F_IMPLICIT) && G_cmd[i].var_num > 0));

        ref_prepare();
        for (k = 0; k < N; k++) {
                W.k = k;
                r = hinted_service(0, k, &W.at);
        }
        CHK(C19, r == CAT_STATUS_OK && W.in_pos == S.in_len, "request completely processed within the step bound");
        CHK(C19, W.hl_n == 1 && W.hl_cmd[0] == (REQ) && W.hl_kind[0] == CAT_CMD_TYPE_RUN, "the run handler asking for the list ran once");
        CHK(C19, !X.mismatch, "command list differs from what the dispatcher accepts (form, order, disabled commands, framing)");
        CHK(C19, !X.extra && X.done, "command list is longer or shorter than the descriptor prescribes");
        CHK(C10, !X.mismatch && !X.extra && X.done, "PRINT_CMD_LIST_OK: the command list, then exactly one result code");
        CHK(C20, !X.mismatch && !X.extra && X.done, "a multi-line answer (command list) does not keep the newline style fixed by the request line (CRLF iff the line contained a CR)");

        WITNESS(X.lines >= 5 && X.fail_slot == NSLOT && X.done, "five-lines-listed");
        WITNESS(X.fail_slot != NSLOT, "line-does-not-fit");
        WITNESS(X.fail_slot == NSLOT && X.done && (S.gd[1 - REQG] || (S.fl[(REQ) == 0 ? M - 1 : 0] & F_DISABLE)), "a-disabled-command-or-group");
}

#ifndef __CPROVER__
static void scen_sample(void)
{
        world_sample();
        S.in[0] = 'A'; S.in[1] = 'T'; S.in[2] = '+'; S.in[3] = (unsigned char)('A' + (REQ));
        if (rnd(2)) { S.in[4] = '\n'; S.in_len = 5; } else { S.in[4] = '\r'; S.in[5] = '\n'; S.in_len = 6; }
        if (rnd(2)) { unsigned c; for (c = 0; c < M; c++) if (c != (REQ)) { S.fl[c] = (unsigned char)rnd(4); S.hm[c] = (unsigned char)rnd(16); } }
        S.gd[1 - REQG] = (unsigned char)(rnd(3) == 0);
        S.fl[REQ] &= ~(F_DISABLE | F_ONLY_TEST | F_IMPLICIT); S.hm[REQ] |= H_RUN; S.gd[REQG] = 0;
}
#endif
