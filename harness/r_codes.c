/*
 * r_codes.c - E3 guided run for C10: handler return codes drive the response exactly as documented.
 *
 * Fixed table (+A: no variable, +B: one uint8 variable with symbolic access and callbacks), one
 * request of kind KIND (0 run "AT+kL", 1 read "AT+k?L", 2 write "AT+k=dL", 3 test "AT+k=?L").
 * The addressed handler returns a symbolic sequence of NRC codes drawn from
 * {ERROR, DATA_OK, DATA_NEXT, NEXT, OK, HOLD_EXIT_OK, HOLD_EXIT_ERROR, PRINT_CMD_LIST_OK(*), 9, -2}
 * (the last one of the sequence is forced terminal: the property's premise "eventually returns a
 * terminal code"); HOLD is C14's subject, the command list is checked by r_list.c, so (*) is only
 * included for kinds where it is *invalid* (read, write). A read/test handler may also rewrite the
 * first byte of its buffer (S.mod) - the emission must show the buffer as the handler left it and
 * the next invocation must again be given the freshly formatted text.
 * The reference interpreter below predicts: number of invocations, every emitted unit, final code.
 */
#include <stdint.h>
#include <stddef.h>
#ifndef KIND
#define KIND 1
#endif
#define SYM_NAMES 0
#define SYM_FLAGS 0
#define SYM_HANDLERS 0
#define M 2
#define NVAR 1
#ifndef NRC
#define NRC 3
#endif
#define NH (NRC + 1)
#define PAYMAX 28
#define L 7

#define SCEN_EXTRA unsigned char mod[NRC];

static struct {
        unsigned inv;            /* invocations of the addressed handler so far */
        unsigned units_seen;     /* units compared so far */
        int bad_fresh, bad_unit_text, bad_unit_kind, bad_extra_unit;
        /* expectation, filled before the run */
        char text[28];
        unsigned tlen;
        unsigned exp_units;              /* data units expected */
        unsigned char exp_mod[NRC + 1];  /* per expected data unit: was the buffer rewritten */
        int exp_final;                   /* UNIT_OK / UNIT_ERROR */
        unsigned exp_inv;
} X;

#define WORLD_RESET_EXTRA WORLD_ZERO(X)
#define ON_UNIT(kind) x_unit(kind)
#define ON_RT_HANDLER(ci, kind, data, data_size, max) x_handler(data, data_size)
static void x_unit(int kind);
static void x_handler(uint8_t *data, size_t *data_size);

/* code alphabet */
static int code_of(unsigned char b);
#define CODESET(b) ((cat_return_state)code_of(b))

#define NO_OUTLOG   /* this harness never looks at the raw output log */
#include "world.h"

static int terminal_for_kind(int c)
{
        /* everything except NEXT / DATA_NEXT / HOLD ends the request */
        return !(c == CAT_RETURN_STATE_NEXT || c == CAT_RETURN_STATE_DATA_NEXT || c == CAT_RETURN_STATE_HOLD);
}

static int code_raw(unsigned char b)
{
        switch (b % 10) {
        case 0: return CAT_RETURN_STATE_ERROR;
        case 1: return CAT_RETURN_STATE_DATA_OK;
        case 2: return CAT_RETURN_STATE_DATA_NEXT;
        case 3: return CAT_RETURN_STATE_NEXT;
        case 4: return CAT_RETURN_STATE_OK;
        case 5: return CAT_RETURN_STATE_HOLD_EXIT_OK;
        case 6: return CAT_RETURN_STATE_HOLD_EXIT_ERROR;
        case 7: return (KIND == 1 || KIND == 2) ? CAT_RETURN_STATE_PRINT_CMD_LIST_OK : CAT_RETURN_STATE_ERROR;
        case 8: return 9;
        default: return -2;
        }
}

/* the i-th code the handler returns: the last of the sequence is forced terminal */
static int code_at(unsigned i)
{
        int c = code_raw(i < NRC ? S.rc[i] : 0);
        if (i + 1 >= NRC && !terminal_for_kind(c))
                c = CAT_RETURN_STATE_OK;
        return c;
}

static int code_of(unsigned char b)
{
        (void)b;
        /* W.rc_n was already advanced by next_code() */
        return code_at(W.rc_n - 1);
}

static void x_handler(uint8_t *data, size_t *data_size)
{
        unsigned i;
        /* freshness: every invocation is given the automatically formatted text */
        if (*data_size != X.tlen)
                X.bad_fresh = 1;
        for (i = 0; i < 28; i++)
                if (i <= X.tlen && data[i] != (uint8_t)X.text[i])
                        X.bad_fresh = 1;
        if (X.inv < NRC && S.mod[X.inv] && X.tlen > 0)
                data[0] = 'Z';
        X.inv++;
}

static void x_unit(int kind)
{
        unsigned i;
        if (X.units_seen < X.exp_units) {
                /* a data unit is expected */
                if (W.u_len != X.tlen)
                        X.bad_unit_text = 1;
                for (i = 0; i < 28; i++)
                        if (i < X.tlen && i < PAYMAX) {
                                char e = (i == 0 && X.exp_mod[X.units_seen]) ? 'Z' : X.text[i];
                                if (G_pay[i] != e)
                                        X.bad_unit_text = 1;
                        }
        } else if (X.units_seen == X.exp_units) {
                if (kind != X.exp_final)
                        X.bad_unit_kind = 1;
        } else {
                X.bad_extra_unit = 1;
        }
        X.units_seen++;
}

static void put(const char *s) { while (*s) X.text[X.tlen++] = *s++; }

static void scen_run(void)
{
        static const char *shapes[4] = { "AT+kL", "AT+k?L", "AT+k=dL", "AT+k=?L" };
        const char *shape = shapes[KIND];
        unsigned i, ci, cap, slen = (KIND == 0) ? 5 : (KIND == 1) ? 6 : 7;
        int k, fits = 1, vfail = 0, served = 1, done = 0;
        cat_status r = CAT_STATUS_BUSY;

        world_assume();
        ASSUME(S.in_len == slen);
        for (i = 0; i < L; i++)
                if (i < slen)
                        ASSUME(shape_ok(shape[i], S.in[i]));
        for (i = 0; i < M; i++)
                ASSUME(S.hm[i] == 15);
        for (i = 0; i < NRC; i++)
                ASSUME(S.mod[i] <= 1);
        world_build();
        cap = cmd_half_cap();
        ci = (unsigned)(up(S.in[3]) - 'A');

        /* ---- reference: formatted text ------------------------------------------------------- */
        X.tlen = 0;
        if (KIND == 1 || KIND == 3) {
                put(ci == 0 ? "+A=" : "+B=");
                if (ci == 1 && KIND == 1 && S.vacc[0] != CAT_VAR_ACCESS_WRITE_ONLY) {
                        unsigned val = G_v0;
                        if ((S.vcb[0] & 2) && S.vrc[0]) vfail = 1;
                        if (val >= 100) X.text[X.tlen++] = (char)('0' + val / 100);
                        if (val >= 10) X.text[X.tlen++] = (char)('0' + (val / 10) % 10);
                        X.text[X.tlen++] = (char)('0' + val % 10);
                }
                if (ci == 1 && KIND == 3) {
                        put("<u:UINT8[");
                        put(S.vacc[0] == 0 ? "RW" : S.vacc[0] == 1 ? "RO" : "WO");
                        put("]>");
                }
                X.text[X.tlen] = 0;
                fits = X.tlen < cap;
        }
        if (KIND == 2 && ci == 1 && S.vacc[0] != CAT_VAR_ACCESS_READ_ONLY) {
                /* one decimal digit always parses; the variable callback may veto */
                if ((S.vcb[0] & 1) && S.vrc[0]) vfail = 1;
        }
        served = fits && !vfail;

        /* ---- reference: interpret the code sequence ------------------------------------------ */
        X.exp_units = 0;
        X.exp_inv = 0;
        X.exp_final = UNIT_ERROR;
        if (served) {
                for (i = 0; i < NRC; i++) {
                        if (!done) {
                                int c = code_at(i);
                                X.exp_inv++;
                                if (KIND == 1 || KIND == 3) {
                                        if (c == CAT_RETURN_STATE_DATA_NEXT || c == CAT_RETURN_STATE_DATA_OK) {
                                                X.exp_mod[X.exp_units] = (S.mod[i] && X.tlen > 0);
                                                X.exp_units++;
                                        }
                                        if (c == CAT_RETURN_STATE_DATA_NEXT || c == CAT_RETURN_STATE_NEXT) continue;
                                        done = 1;
                                        X.exp_final = (c == CAT_RETURN_STATE_DATA_OK || c == CAT_RETURN_STATE_OK || c == CAT_RETURN_STATE_HOLD_EXIT_OK) ? UNIT_OK : UNIT_ERROR;
                                } else {
                                        if (c == CAT_RETURN_STATE_DATA_NEXT || c == CAT_RETURN_STATE_NEXT) continue;
                                        done = 1;
                                        X.exp_final = (c == CAT_RETURN_STATE_DATA_OK || c == CAT_RETURN_STATE_OK) ? UNIT_OK : UNIT_ERROR;
                                }
                        }
                }
        }

        for (k = 0; k < N; k++) {
                W.k = k;
                r = hinted_service(0, k, &W.at);
        }
        CHK(C10, r == CAT_STATUS_OK && W.in_pos == S.in_len && W.u_state == 0, "request completely processed within the step bound");
        CHK(C10, W.hl_n == X.exp_inv, "number of handler invocations as the code sequence prescribes");
        for (i = 0; i < NH; i++)
                if (i < W.hl_n)
                        CHK(C10, W.hl_cmd[i] == ci && W.hl_kind[i] == (KIND == 0 ? CAT_CMD_TYPE_RUN : KIND == 1 ? CAT_CMD_TYPE_READ : KIND == 2 ? CAT_CMD_TYPE_WRITE : CAT_CMD_TYPE_TEST),
                            "only the addressed handler is invoked");
        CHK(C10, !X.bad_fresh, "every invocation is given the freshly formatted response text");
        CHK(C10, !X.bad_unit_text, "each emission is the response buffer as the handler left it");
        CHK(C10, !X.bad_unit_kind, "final result code as the last return code prescribes");
        CHK(C10, !X.bad_extra_unit && X.units_seen == X.exp_units + 1, "exactly the emissions the codes ask for, then exactly one result code");
        CHK(C10, !W.malformed, "output is a sequence of newline-framed units");
        if (vfail)
                CHK(C10, W.hl_n == 0 && X.units_seen == 1, "a failing variable callback aborts with ERROR before the command handler runs");

        WITNESS(X.exp_units >= 2 && X.units_seen == 3, "two-data-units-then-code");
        WITNESS(W.hl_n == NRC, "handler-invoked-NRC-times");
        WITNESS(vfail, "variable-callback-failed");
        WITNESS(X.exp_units >= 1 && X.exp_mod[0], "emission-of-rewritten-buffer");
}

#ifndef __CPROVER__
static void scen_sample(void)
{
        static const char *shapes[4] = { "AT+kL", "AT+k?L", "AT+k=dL", "AT+k=?L" };
        const char *shape = shapes[KIND];
        unsigned p, n = (unsigned)strlen(shape);
        world_sample();
        for (p = 0; p < M; p++) S.hm[p] = 15;
        for (p = 0; p < n; p++) S.in[p] = shape_sample(shape[p], 0, 0);
        S.in_len = (unsigned char)n;
        for (p = 0; p < NRC; p++) { S.mod[p] = (unsigned char)rnd(2); S.rc[p] = (unsigned char)(rnd(3) ? 2 + rnd(2) : rnd(10)); }
}
#endif
