/*
 * k_num.c - E1 kernel harness for C04 (and, with the standard checks on, part of C03):
 * the real parse_write_args() -> parse_{int,uint}_decimal / parse_num_hexadecimal ->
 * validate_{int,uint}_range sequence on a symbolic argument text, compared with a reference
 * that decides by *significant-digit count* and a value that cannot wrap.
 *
 * Build macros: VT = 0 int dec, 1 uint dec, 2 hex;  LEN = max text length;  DS = data_size
 * (1,2,4 or 3 = unsupported; 0 = symbolic among 1..4).
 */
#ifndef VT
#define VT 0
#endif
#ifndef LEN
#define LEN 12
#endif
#ifndef DS
#define DS 0
#endif

struct scen {
        unsigned char text[LEN];
        unsigned char tlen;      /* 0..LEN */
        unsigned char comma;     /* 0: text ends the argument list; 1: followed by ",5" for a 2nd variable */
        unsigned char ds;        /* data_size when DS == 0 */
        unsigned char access;    /* 0 RW, 1 RO, 2 WO */
        unsigned char init[4];   /* previous contents of the variable */
        unsigned char need_all;
        unsigned char wfail;     /* variable write callback result: 0 ok, else error */
};
#define SCEN_DEFINED
#include "common.h"

#define CAP (LEN + 4)

static struct {
        struct cat_object at;
        struct cat_descriptor desc;
        struct cat_command_group grp;
        struct cat_command_group *grps[1];
        struct cat_command cmd;
        struct cat_variable var[2];
        struct cat_io_interface io;
        uint8_t second;
        int wcalls0, wcalls1;
        size_t wsize0;
} W;
static uint8_t G_buf[CAP];
static union { uint8_t b[8]; uint32_t align; } G_data;

static int io_write(char c) { (void)c; return 1; }
static int io_read(char *c) { (void)c; return 0; }

static int var_write(const struct cat_variable *v, const size_t n)
{
        if (v == &W.var[0]) {
                W.wcalls0++;
                W.wsize0 = n;
                return S.wfail ? 1 : 0;
        }
        W.wcalls1++;
        return 0;
}

static void world_reset(void)
{
        WORLD_ZERO(W);
        WORLD_ZERO(G_buf);
        WORLD_ZERO(G_data);
}

static int is_dec(unsigned char c) { return c >= '0' && c <= '9'; }
static int hexval(unsigned char c)
{
        if (c >= '0' && c <= '9') return c - '0';
        if (c >= 'A' && c <= 'F') return c - 'A' + 10;
        if (c >= 'a' && c <= 'f') return c - 'a' + 10;
        return -1;
}

/* reference: returns 1 if the text is grammatical, *inrange and *value describe its mathematical value */
static int reference(const unsigned char *t, unsigned n, unsigned ds, int *inrange, uint32_t *stored)
{
        unsigned i = 0, start, sig = 0;
        int neg = 0, seen_nz = 0;
        uint64_t mag = 0;

#if VT == 0
        if (i < n && (t[i] == '+' || t[i] == '-')) { neg = (t[i] == '-'); i++; }
#elif VT == 2
        if (!(n >= 2 && t[0] == '0' && (t[1] == 'x' || t[1] == 'X')))
                return 0;
        i = 2;
#endif
        start = i;
        if (start >= n)
                return 0; /* no digit */
        for (i = 0; i < LEN; i++) {
                if (i >= start && i < n) {
#if VT == 2
                        int v = hexval(t[i]);
                        if (v < 0) return 0;
                        if (v != 0) seen_nz = 1;
                        if (seen_nz) { sig++; if (sig <= 8) mag = (mag << 4) | (uint64_t)v; }
#else
                        if (!is_dec(t[i])) return 0;
                        if (t[i] != '0') seen_nz = 1;
                        if (seen_nz) { sig++; if (sig <= 10) mag = mag * 10 + (uint64_t)(t[i] - '0'); }
#endif
                }
        }
        /* mag is exact whenever sig <= 10 (resp. 8): < 10^10 (resp. 2^32), no wrap possible */
#if VT == 2
        *inrange = (sig <= 8);
#else
        *inrange = (sig <= 10);
#endif
        if (*inrange) {
                unsigned bits = 8 * ds;
                if (ds != 1 && ds != 2 && ds != 4) {
                        *inrange = 0;
                } else {
#if VT == 0
                        uint64_t lim = ((uint64_t)1 << (bits - 1)) - (neg ? 0 : 1);
                        if (mag > lim) *inrange = 0;
                        else *stored = neg ? (uint32_t)(0 - (uint32_t)mag) : (uint32_t)mag;
#else
                        uint64_t lim = (bits == 32) ? 0xFFFFFFFFULL : (((uint64_t)1 << bits) - 1);
                        if (mag > lim) *inrange = 0;
                        else *stored = (uint32_t)mag;
#endif
                }
        }
        return 1;
}

static void scen_run(void)
{
        unsigned i, n = S.tlen, ds = DS ? DS : S.ds;
        int grammatical, inrange = 0, accepted, steps;
        uint32_t expect = 0, got = 0, before = 0;

        ASSUME(n <= LEN);
        ASSUME(ds >= 1 && ds <= 4);
        ASSUME(S.access <= 2);
        ASSUME(S.comma <= 1 && S.need_all <= 1 && S.wfail <= 1);
        for (i = 0; i < LEN; i++)
                if (i < n)
                        ASSUME(S.text[i] != 0 && S.text[i] != ',');

        /* descriptor: one command, variable 0 under test, variable 1 a plain uint8 */
        W.io.read = io_read; W.io.write = io_write;
        W.var[0].type = (cat_var_type)VT;
        W.var[0].data = G_data.b;
        W.var[0].data_size = ds;
        W.var[0].access = (cat_var_access)S.access;
        W.var[0].write = var_write;
        W.var[1].type = CAT_VAR_UINT_DEC;
        W.var[1].data = &W.second;
        W.var[1].data_size = 1;
        W.var[1].write = var_write;
        W.cmd.name = "+V";
        W.cmd.var = W.var;
        W.cmd.var_num = 2;
        W.cmd.need_all_vars = S.need_all;
        W.grp.cmd = &W.cmd; W.grp.cmd_num = 1;
        W.grps[0] = &W.grp;
        W.desc.cmd_group = W.grps; W.desc.cmd_group_num = 1;
        W.desc.buf = G_buf; W.desc.buf_size = CAP;
        W.desc.unsolicited_buf = (uint8_t *)&W.second; /* separate (unused) event buffer: whole buf is the command half */
        W.desc.unsolicited_buf_size = 1;
        cat_init(&W.at, &W.desc, &W.io, NULL);

        for (i = 0; i < 4; i++) G_data.b[i] = S.init[i];
        for (i = 0; i < 4; i++) G_data.b[4 + i] = 0xA5; /* canary behind the widest value */
        before = vf_u32(G_data.b);

        /* argument text as parse_command_args leaves it */
        for (i = 0; i < LEN; i++)
                if (i < n) G_buf[i] = S.text[i];
        if (S.comma) { G_buf[n] = ','; G_buf[n + 1] = '5'; G_buf[n + 2] = 0; W.at.length = n + 2; }
        else { G_buf[n] = 0; W.at.length = n; }

        W.at.cmd = &W.cmd;
        W.at.cmd_type = CAT_CMD_TYPE_WRITE;
        W.at.state = CAT_STATE_PARSE_WRITE_ARGS;
        W.at.position = 0;
        W.at.index = 0;
        W.at.var = &W.var[0];

        parse_write_args(&W.at);
        steps = 1;
        if (W.at.state == CAT_STATE_PARSE_WRITE_ARGS) {
                /* concretising assignments (semantic no-ops, proved below) keep the 2nd call's dispatch constant */
                CHK(C04, W.at.var == &W.var[1] && W.at.index == 1, "second argument goes to the second variable");
                ASSUME(W.at.var == &W.var[1] && W.at.index == 1);
                W.at.var = &W.var[1];
                W.at.index = 1;
                parse_write_args(&W.at);
                steps = 2;
        }

        CHK(C04, W.at.state == CAT_STATE_FLUSH_IO_WRITE_WAIT, "argument parsing ends in a result code");
        accepted = (G_buf[0] == 'O' && G_buf[1] == 'K' && G_buf[2] == 0);
        CHK(C04, accepted || (G_buf[0] == 'E' && G_buf[1] == 'R' && G_buf[2] == 'R' && G_buf[3] == 'O' && G_buf[4] == 'R' && G_buf[5] == 0),
            "answer is OK or ERROR");

        grammatical = reference(S.text, n, ds, &inrange, &expect);
        got = vf_u32(G_data.b);

        for (i = 0; i < 4; i++)
                CHK(C04, G_data.b[4 + i] == 0xA5, "bytes beyond the variable are untouched");

        if (S.access == CAT_VAR_ACCESS_READ_ONLY) {
                CHK(C08, got == before, "read-only variable keeps its value");
        } else {
                int value_ok = grammatical && inrange;
                /* the command as a whole: also needs the callback to agree; with a missing 2nd argument need_all rejects */
                int cmd_ok = value_ok && !S.wfail && (S.comma || !S.need_all);
                uint32_t mask = ds == 1 ? 0xFFu : ds == 2 ? 0xFFFFu : ds == 4 ? 0xFFFFFFFFu : 0u;
                CHK(C04, accepted == cmd_ok, "accepted iff well-formed and in range");
                if (value_ok) {
                        CHK(C04, (got & mask) == (expect & mask), "stored value equals the mathematical value");
                        CHK(C04, (got & ~mask) == (before & ~mask), "bytes above data_size unchanged");
                        CHK(C04, W.wcalls0 == 1 && W.wsize0 == ds, "write callback told data_size");
                } else {
                        CHK(C04, got == before, "rejected argument leaves the variable unchanged");
                        CHK(C04, W.wcalls0 == 0, "no write callback for a rejected argument");
                }
                if (value_ok && !S.wfail && S.comma)
                        CHK(C04, W.second == 5 && W.wcalls1 == 1, "following argument parsed");
                if (!value_ok || S.wfail)
                        CHK(C04, W.wcalls1 == 0 && W.second == 0, "arguments after a rejected one are not stored");
                WITNESS(value_ok && n >= 3, "accepted-3-chars");
                WITNESS(grammatical && !inrange, "grammatical-out-of-range");
                WITNESS(!grammatical && n > 0, "ungrammatical");
                WITNESS(value_ok && S.comma, "first-of-two");
        }
}

#ifndef __CPROVER__
static void scen_sample(void)
{
        unsigned i, n = rnd(LEN + 1);
        S.tlen = (unsigned char)n;
        for (i = 0; i < LEN; i++) {
                unsigned r = rnd(20);
#if VT == 2
                S.text[i] = r < 16 ? RND_PICK("0123456789abcdefABCDEF") : r < 17 ? 'x' : r < 18 ? '0' : (unsigned char)(1 + rnd(255));
#else
                S.text[i] = r < 16 ? RND_PICK("0123456789") : r < 17 ? RND_PICK("+-") : r < 18 ? '0' : (unsigned char)(1 + rnd(255));
#endif
                if (S.text[i] == ',') S.text[i] = '1';
        }
#if VT == 2
        if (rnd(8)) { S.text[0] = '0'; S.text[1] = rnd(2) ? 'x' : 'X'; }
#else
        if (rnd(3) == 0) S.text[0] = RND_PICK("+-0");
#endif
        if (rnd(3) == 0) for (i = 0; i < LEN / 2; i++) S.text[(VT == 2 ? 2 : 1) + i] = '0';
        S.comma = (unsigned char)rnd(2);
        S.ds = (unsigned char)(1 + rnd(4));
        S.access = (unsigned char)rnd(3);
        rnd_bytes(S.init, 4);
        S.need_all = (unsigned char)rnd(2);
        S.wfail = (unsigned char)(rnd(5) == 0);
}
#endif
